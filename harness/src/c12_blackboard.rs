//! C12 (port level): the blackboard ports through the public API, one call per line.
//!
//! `new <variant> <max_readers> <ty0> <ty1> ...`  service with keys 0..n-1 (u64 keys); the value type of key i is
//!     `a` = u64 (8 bytes), `b` = [u64; 3] (24 bytes), `c` = [u32; 5] (20 bytes, align 4); initial value v = 0.
//!     A value v is stored self-checking: word k = 100 v + k.  Type `d` = i64 (layout of `a`, other name) is only
//!     ever *requested*, never stored.
//! `cwriter w` / `dwriter w`        Writer port (label w)
//! `creader r` / `dreader r`        Reader port (label r)
//! `hmut w k h t`                   Writer::entry::<t>(k)  -> EntryHandleMut, label h
//! `dhmut h`                        drop the EntryHandleMut
//! `update h v`                     EntryHandleMut::update_with_copy
//! `loan h l`                       EntryHandleMut::loan_uninit -> EntryValueUninit, label l (h is moved into it)
//! `lwrite l v`                     EntryValueUninit::value_mut().write(..)
//! `lcommit l`                      EntryValueUninit::assume_init_and_update (refused by the harness when nothing was written)
//! `commit l v`                     EntryValueUninit::update_with_copy
//! `discard l`                      EntryValueUninit::discard  (h is back)
//! `dloan l`                        drop the EntryValueUninit (and the handle inside)
//! `hget r k g t`                   Reader::entry::<t>(k) -> EntryHandle, label g
//! `dhget g`                        drop the EntryHandle
//! `get g`                          EntryHandle::get -> v | torn
//! `fresh g`                        EntryHandle::is_up_to_date(last value obtained by `get g`)
//! `dsvc`                           drop the PortFactory (ports and handles live on)
//! `count`                          dynamic config: number of registered writers / readers
//!
//!
//! Custom-key path (what the C / C++ / Python bindings use): `new local-custom …` / `new ipc-custom …` creates the
//! service with `blackboard_creator::<CustomKeyMarker>()` + `__internal_set_key_type_details(u64)` +
//! `__internal_set_key_eq_cmp_func` + `__internal_add`; in such a world EVERY call goes through the internal API:
//! `hmutx w k h t` (alias `hmut`)   Writer::__internal_entry(key ptr, TypeDetail of t) -> __InternalEntryHandleMut
//! `dhmut h`                        drop of the __InternalEntryHandleMut (its own `Drop` releases the producer flag)
//! `update h v`                     __internal_get_ptr_to_write_cell(size, align) + raw copy + __internal_update_write_cell
//!                                  (= iox2_entry_handle_mut_update_with_copy of the C binding)
//! `loan h l`                       __InternalEntryHandleMut::loan_uninit(size, align) -> __InternalEntryValueUninit
//! `lwrite l v`                     raw copy to __InternalEntryValueUninit::write_cell()
//! `lcommit l`                      __InternalEntryValueUninit::update      `commit l v` = raw copy + update
//! `discard l` / `dloan l`          __InternalEntryValueUninit::discard / drop
//! `hx r k g t` (alias `hget`)      Reader::__internal_entry -> __InternalEntryHandle
//! `get g` / `fresh g`              __InternalEntryHandle::get(value ptr, size, align, &mut generation) / is_up_to_date(generation)
//! The answers are the same model operations (the Lean driver reads `hmutx` as `hmut`, `hx` as `hget`).
//!
//! Independent oracles (not the model): at most one live Writer, at most one live write handle (or loan) per key,
//! at most one registered writer, a value read is self-consistent, was written to that key and is not older than
//! one the same read handle has seen before; every live read handle is re-read after every call.
use crate::common::*;
use iceoryx2::constants::MAX_BLACKBOARD_KEY_SIZE;
use iceoryx2::port::reader::{__InternalEntryHandle, BlackboardValue, EntryHandle, Reader};
use iceoryx2::port::writer::{__InternalEntryHandleMut, __InternalEntryValueUninit, EntryHandleMut, EntryValueUninit, Writer};
use iceoryx2::prelude::*;
use iceoryx2::service::marker::CustomKeyMarker;
use iceoryx2::service::resource::blackboard::KeyMemory;
use iceoryx2::service::static_config::message_type_details::{TypeDetail, TypeVariant};
use iceoryx2::service::port_factory::blackboard::PortFactory as BbFactory;
use std::collections::{BTreeSet, HashMap};

static SERVICE_COUNTER: std::sync::atomic::AtomicUsize = std::sync::atomic::AtomicUsize::new(0);

type TA = u64;
type TB = [u64; 3];
type TC = [u32; 5];
type TD = i64;

trait Pat: Copy {
    fn enc(v: u64) -> Self;
    fn dec(&self) -> Option<u64>;
}
impl Pat for TA {
    fn enc(v: u64) -> Self {
        100 * v
    }
    fn dec(&self) -> Option<u64> {
        if self % 100 == 0 { Some(self / 100) } else { None }
    }
}
impl Pat for TB {
    fn enc(v: u64) -> Self {
        [100 * v, 100 * v + 1, 100 * v + 2]
    }
    fn dec(&self) -> Option<u64> {
        let v = self[0] / 100;
        if *self == Self::enc(v) { Some(v) } else { None }
    }
}
impl Pat for TC {
    fn enc(v: u64) -> Self {
        let b = 100 * v as u32;
        [b, b + 1, b + 2, b + 3, b + 4]
    }
    fn dec(&self) -> Option<u64> {
        let v = (self[0] / 100) as u64;
        if *self == Self::enc(v) { Some(v) } else { None }
    }
}

/// value type of an entry as the language bindings see it: name + size + alignment, values are raw bytes
#[derive(Clone, Copy, PartialEq)]
enum Ty {
    A,
    B,
    C,
}
impl Ty {
    fn parse(s: &str) -> Option<Ty> {
        match s {
            "a" => Some(Ty::A),
            "b" => Some(Ty::B),
            "c" => Some(Ty::C),
            _ => None,
        }
    }
    /// the type details a binding would pass for the requested type (`d` = i64: layout of `a`, other name)
    fn details(s: &str) -> TypeDetail {
        match s {
            "a" => TypeDetail::new::<TA>(TypeVariant::FixedSize),
            "b" => TypeDetail::new::<TB>(TypeVariant::FixedSize),
            "c" => TypeDetail::new::<TC>(TypeVariant::FixedSize),
            _ => TypeDetail::new::<TD>(TypeVariant::FixedSize),
        }
    }
    fn size(self) -> usize {
        match self {
            Ty::A => core::mem::size_of::<TA>(),
            Ty::B => core::mem::size_of::<TB>(),
            Ty::C => core::mem::size_of::<TC>(),
        }
    }
    fn align(self) -> usize {
        match self {
            Ty::A => core::mem::align_of::<TA>(),
            Ty::B => core::mem::align_of::<TB>(),
            Ty::C => core::mem::align_of::<TC>(),
        }
    }
    /// raw copy of the encoded value to `dst` (what `iox2_entry_handle_mut_update_with_copy` does with the caller's value)
    unsafe fn put(self, v: u64, dst: *mut u8) {
        macro_rules! p {
            ($t:ty) => {{
                let x: $t = <$t>::enc(v);
                unsafe { core::ptr::copy_nonoverlapping(&x as *const $t as *const u8, dst, core::mem::size_of::<$t>()) };
            }};
        }
        match self {
            Ty::A => p!(TA),
            Ty::B => p!(TB),
            Ty::C => p!(TC),
        }
    }
    /// lets `f` fill a properly aligned value of this type and decodes it
    unsafe fn fetch(self, f: impl FnOnce(*mut u8)) -> Option<u64> {
        macro_rules! g {
            ($t:ty) => {{
                let mut x = core::mem::MaybeUninit::<$t>::zeroed();
                f(x.as_mut_ptr() as *mut u8);
                unsafe { x.assume_init() }.dec()
            }};
        }
        match self {
            Ty::A => g!(TA),
            Ty::B => g!(TB),
            Ty::C => g!(TC),
        }
    }
}

enum HM<S: Service> {
    A(EntryHandleMut<S, u64, TA>),
    B(EntryHandleMut<S, u64, TB>),
    C(EntryHandleMut<S, u64, TC>),
    X(__InternalEntryHandleMut<S>, Ty),
}
enum LN<S: Service> {
    A(EntryValueUninit<S, u64, TA>),
    B(EntryValueUninit<S, u64, TB>),
    C(EntryValueUninit<S, u64, TC>),
    X(__InternalEntryValueUninit<S>, Ty),
}
enum RH<S: Service> {
    A(EntryHandle<S, u64, TA>, Option<BlackboardValue<TA>>),
    B(EntryHandle<S, u64, TB>, Option<BlackboardValue<TB>>),
    C(EntryHandle<S, u64, TC>, Option<BlackboardValue<TC>>),
    /// the generation counter handed out by the last `get`
    X(__InternalEntryHandle<S>, Ty, Option<u64>),
}
/// ports and the service handle of the generic (u64 key) and of the custom-key world
enum WP<S: Service> {
    G(Writer<S, u64>),
    X(Writer<S, CustomKeyMarker>),
}
enum RP<S: Service> {
    G(Reader<S, u64>),
    X(Reader<S, CustomKeyMarker>),
}
enum SV<S: Service> {
    G(BbFactory<S, u64>),
    X(BbFactory<S, CustomKeyMarker>),
}
impl<S: Service> SV<S> {
    fn create_writer(&self) -> Result<WP<S>, String> {
        match self {
            SV::G(s) => s.writer_builder().create().map(WP::G).map_err(|e| format!("err:{e:?}")),
            SV::X(s) => s.writer_builder().create().map(WP::X).map_err(|e| format!("err:{e:?}")),
        }
    }
    fn create_reader(&self) -> Result<RP<S>, String> {
        match self {
            SV::G(s) => s.reader_builder().create().map(RP::G).map_err(|e| format!("err:{e:?}")),
            SV::X(s) => s.reader_builder().create().map(RP::X).map_err(|e| format!("err:{e:?}")),
        }
    }
    fn writers(&self) -> usize {
        match self {
            SV::G(s) => s.dynamic_config().number_of_writers(),
            SV::X(s) => s.dynamic_config().number_of_writers(),
        }
    }
    fn readers(&self) -> usize {
        match self {
            SV::G(s) => s.dynamic_config().number_of_readers(),
            SV::X(s) => s.dynamic_config().number_of_readers(),
        }
    }
}
impl<S: Service> HM<S> {
    fn update(&self, v: u64) {
        match self {
            HM::A(h) => h.update_with_copy(TA::enc(v)),
            HM::B(h) => h.update_with_copy(TB::enc(v)),
            HM::C(h) => h.update_with_copy(TC::enc(v)),
            HM::X(h, ty) => unsafe {
                let cell = h.__internal_get_ptr_to_write_cell(ty.size(), ty.align());
                ty.put(v, cell);
                h.__internal_update_write_cell();
            },
        }
    }
    fn loan(self) -> LN<S> {
        match self {
            HM::A(h) => LN::A(h.loan_uninit()),
            HM::B(h) => LN::B(h.loan_uninit()),
            HM::C(h) => LN::C(h.loan_uninit()),
            HM::X(h, ty) => LN::X(h.loan_uninit(ty.size(), ty.align()), ty),
        }
    }
}
impl<S: Service> LN<S> {
    fn write(&mut self, v: u64) {
        match self {
            LN::A(l) => {
                l.value_mut().write(TA::enc(v));
            }
            LN::B(l) => {
                l.value_mut().write(TB::enc(v));
            }
            LN::C(l) => {
                l.value_mut().write(TC::enc(v));
            }
            LN::X(l, ty) => unsafe { ty.put(v, l.write_cell()) },
        }
    }
    fn assume_init(self) -> HM<S> {
        unsafe {
            match self {
                LN::A(l) => HM::A(l.assume_init_and_update()),
                LN::B(l) => HM::B(l.assume_init_and_update()),
                LN::C(l) => HM::C(l.assume_init_and_update()),
                LN::X(l, ty) => HM::X(l.update(), ty),
            }
        }
    }
    fn update_with_copy(self, v: u64) -> HM<S> {
        match self {
            LN::A(l) => HM::A(l.update_with_copy(TA::enc(v))),
            LN::B(l) => HM::B(l.update_with_copy(TB::enc(v))),
            LN::C(l) => HM::C(l.update_with_copy(TC::enc(v))),
            LN::X(l, ty) => {
                // the bindings have no update_with_copy on the loan: write + update
                unsafe { ty.put(v, l.write_cell()) };
                HM::X(l.update(), ty)
            }
        }
    }
    fn discard(self) -> HM<S> {
        match self {
            LN::A(l) => HM::A(l.discard()),
            LN::B(l) => HM::B(l.discard()),
            LN::C(l) => HM::C(l.discard()),
            LN::X(l, ty) => HM::X(l.discard(), ty),
        }
    }
}
impl<S: Service> RH<S> {
    /// reads the value; `keep`: remember the BlackboardValue for `fresh`
    fn get(&mut self, keep: bool) -> Option<u64> {
        macro_rules! g {
            ($h:expr, $last:expr) => {{
                let bv = $h.get();
                let r = (*bv).dec();
                if keep {
                    *$last = Some(bv);
                }
                r
            }};
        }
        match self {
            RH::A(h, last) => g!(h, last),
            RH::B(h, last) => g!(h, last),
            RH::C(h, last) => g!(h, last),
            RH::X(h, ty, last) => {
                let mut generation = 0u64;
                let gen_ptr: *mut u64 = if keep { &mut generation } else { core::ptr::null_mut() };
                let (size, align) = (ty.size(), ty.align());
                let r = unsafe { ty.fetch(|p| h.get(p, size, align, gen_ptr)) };
                if keep {
                    *last = Some(generation);
                }
                r
            }
        }
    }
    fn fresh(&self) -> Option<bool> {
        match self {
            RH::A(h, last) => last.as_ref().map(|v| h.is_up_to_date(v)),
            RH::B(h, last) => last.as_ref().map(|v| h.is_up_to_date(v)),
            RH::C(h, last) => last.as_ref().map(|v| h.is_up_to_date(v)),
            RH::X(h, _, last) => last.map(|g| h.is_up_to_date(g)),
        }
    }
}

struct ReadHandle<S: Service> {
    key: usize,
    h: RH<S>,
    last_seen: u64,
}

struct World<S: Service> {
    // declaration order = drop order: handles first, then ports, then the service, then the node
    loans: HashMap<usize, (usize, Option<u64>, LN<S>)>,
    hmuts: HashMap<usize, (usize, Option<HM<S>>)>,
    rhandles: HashMap<usize, ReadHandle<S>>,
    writers: HashMap<usize, WP<S>>,
    readers: HashMap<usize, RP<S>>,
    service: Option<SV<S>>,
    _node: Node<S>,
    nkeys: usize,
    used: [BTreeSet<usize>; 5], // labels ever used: w r h l g
    written: Vec<BTreeSet<u64>>,
    _cleanup: Cleanup, // last: runs after the node is gone
}

/// the domain-wide management segment of the prefix persists by design; it is ours alone, remove it with the case
struct Cleanup {
    prefix: String,
    ipc: bool,
}
impl Drop for Cleanup {
    fn drop(&mut self) {
        if !self.ipc {
            return; // the local variant creates nothing outside the process
        }
        if let Ok(rd) = std::fs::read_dir("/dev/shm") {
            for e in rd.flatten() {
                let n = e.file_name().to_string_lossy().to_string();
                if n.starts_with(&self.prefix) && n.ends_with("global_mgmt") {
                    let _ = std::fs::remove_file(e.path());
                }
            }
        }
    }
}

pub enum AnyWorld {
    None,
    Local(Box<World<local::Service>>),
    Ipc(Box<World<ipc::Service>>),
}
pub struct BlackboardComp {
    w: AnyWorld,
}
impl BlackboardComp {
    pub fn new() -> Self {
        BlackboardComp { w: AnyWorld::None }
    }
}
fn n(s: &str) -> usize {
    s.parse().unwrap()
}

fn mk<S: Service>(t: &[&str]) -> Result<World<S>, String> {
    let k = SERVICE_COUNTER.fetch_add(1, std::sync::atomic::Ordering::Relaxed);
    let mut config = iceoryx2::config::Config::global_config().clone();
    // own domain: nothing is shared with other iceoryx2 users of this machine
    let prefix = format!("vb{}c{}_", std::process::id(), k);
    config.global.prefix = iceoryx2_bb_system_types::file_name::FileName::new(prefix.as_bytes()).unwrap();
    let node = NodeBuilder::new().config(&config).create::<S>().map_err(|e| format!("err:node:{e:?}"))?;
    let name = ServiceName::new(&format!("verif/blackboard/{}/{k}", std::process::id())).unwrap();
    let service = if t[1].ends_with("-custom") {
        SV::X(mk_custom(&node, &name, t)?)
    } else {
        let mut b = node.service_builder(&name).blackboard_creator::<u64>().max_readers(n(t[2]));
        for (i, ty) in t[3..].iter().enumerate() {
            b = match *ty {
                "a" => b.add::<TA>(i as u64, TA::enc(0)),
                "b" => b.add::<TB>(i as u64, TB::enc(0)),
                "c" => b.add::<TC>(i as u64, TC::enc(0)),
                _ => panic!("bad type"),
            };
        }
        SV::G(b.create().map_err(|e| format!("err:service:{e:?}"))?)
    };
    let nkeys = t.len() - 3;
    Ok(World {
        loans: HashMap::new(),
        hmuts: HashMap::new(),
        rhandles: HashMap::new(),
        writers: HashMap::new(),
        readers: HashMap::new(),
        service: Some(service),
        _node: node,
        nkeys,
        used: Default::default(),
        written: (0..nkeys).map(|_| [0u64].into_iter().collect()).collect(),
        _cleanup: Cleanup { prefix, ipc: t[1].starts_with("ipc") },
    })
}

fn cmp_u64(lhs: *const u8, rhs: *const u8) -> bool {
    unsafe { *(lhs as *const u64) == *(rhs as *const u64) }
}

/// the service the way the language bindings create it: key type = CustomKeyMarker + type details of u64 + an own
/// key comparison, every entry through `__internal_add` (key pointer, pointer to the initial value, type details,
/// release callback of the value)
fn mk_custom<S: Service>(node: &Node<S>, name: &ServiceName, t: &[&str]) -> Result<BbFactory<S, CustomKeyMarker>, String> {
    let mut b = unsafe {
        node.service_builder(name)
            .blackboard_creator::<CustomKeyMarker>()
            .max_readers(n(t[2]))
            .__internal_set_key_type_details(&TypeDetail::new::<u64>(TypeVariant::FixedSize))
            .__internal_set_key_eq_cmp_func(Box::new(move |lhs, rhs| KeyMemory::<MAX_BLACKBOARD_KEY_SIZE>::key_eq_comparison(lhs, rhs, &cmp_u64)))
    };
    for (i, ty) in t[3..].iter().enumerate() {
        let key = i as u64;
        macro_rules! add {
            ($t:ty) => {{
                // the initial value lives on the heap until the builder releases it through the callback
                let v: *mut $t = Box::into_raw(Box::new(<$t>::enc(0)));
                let addr = v as usize;
                unsafe {
                    b.__internal_add(
                        &key as *const u64 as *const u8,
                        v as *mut u8,
                        TypeDetail::new::<$t>(TypeVariant::FixedSize),
                        Box::new(move || drop(Box::from_raw(addr as *mut $t))),
                    )
                }
            }};
        }
        b = match *ty {
            "a" => add!(TA),
            "b" => add!(TB),
            "c" => add!(TC),
            _ => panic!("bad type"),
        };
    }
    b.create().map_err(|e| format!("err:service:{e:?}"))
}

const W: usize = 0;
const R: usize = 1;
const H: usize = 2;
const L: usize = 3;
const G: usize = 4;

fn exec<S: Service>(w: &mut World<S>, t: &[&str]) -> String {
    let r: String = match t[0] {
        "cwriter" => {
            if w.used[W].contains(&n(t[1])) {
                "dup".into()
            } else if w.service.is_none() {
                "no-service".into()
            } else {
                match w.service.as_ref().unwrap().create_writer() {
                    Ok(p) => {
                        w.used[W].insert(n(t[1]));
                        w.writers.insert(n(t[1]), p);
                        "ok".into()
                    }
                    Err(e) => e,
                }
            }
        }
        "dwriter" => match w.writers.remove(&n(t[1])) {
            Some(p) => {
                drop(p);
                "ok".into()
            }
            None => "none".into(),
        },
        "creader" => {
            if w.used[R].contains(&n(t[1])) {
                "dup".into()
            } else if w.service.is_none() {
                "no-service".into()
            } else {
                match w.service.as_ref().unwrap().create_reader() {
                    Ok(p) => {
                        w.used[R].insert(n(t[1]));
                        w.readers.insert(n(t[1]), p);
                        "ok".into()
                    }
                    Err(e) => e,
                }
            }
        }
        "dreader" => match w.readers.remove(&n(t[1])) {
            Some(p) => {
                drop(p);
                "ok".into()
            }
            None => "none".into(),
        },
        "hmut" | "hmutx" => {
            // hmut <w> <k> <h> <t>   (hmutx: the same through Writer::__internal_entry, custom-key worlds only)
            let (wl, k, h) = (n(t[1]), n(t[2]), n(t[3]));
            if w.used[H].contains(&h) {
                "dup".into()
            } else {
                match w.writers.get(&wl) {
                    None => "none".into(),
                    Some(p) => {
                        let key = k as u64;
                        let res: Result<Option<HM<S>>, String> = match p {
                            WP::G(_) if t[0] == "hmutx" => panic!("bad op"),
                            WP::G(p) => match t[4] {
                                "a" => p.entry::<TA>(&key).map(|x| Some(HM::A(x))).map_err(|e| format!("{e:?}")),
                                "b" => p.entry::<TB>(&key).map(|x| Some(HM::B(x))).map_err(|e| format!("{e:?}")),
                                "c" => p.entry::<TC>(&key).map(|x| Some(HM::C(x))).map_err(|e| format!("{e:?}")),
                                _ => p.entry::<TD>(&key).map(|_| None).map_err(|e| format!("{e:?}")),
                            },
                            WP::X(p) => unsafe { p.__internal_entry(&key as *const u64 as *const u8, &Ty::details(t[4])) }
                                .map(|x| Ty::parse(t[4]).map(|ty| HM::X(x, ty)))
                                .map_err(|e| format!("{e:?}")),
                        };
                        match res {
                            Ok(Some(hm)) => {
                                w.used[H].insert(h);
                                w.hmuts.insert(h, (k, Some(hm)));
                                "ok".into()
                            }
                            Ok(None) => {
                                oracle_fail("handle of a type that no key has".into());
                                "ok-foreign-type".into()
                            }
                            Err(e) => format!("err:{e}"),
                        }
                    }
                }
            }
        }
        "dhmut" => match w.hmuts.get(&n(t[1])) {
            None => "none".into(),
            Some((_, None)) => "moved".into(),
            Some(_) => {
                let (_, hm) = w.hmuts.remove(&n(t[1])).unwrap();
                drop(hm);
                "ok".into()
            }
        },
        "update" => match w.hmuts.get(&n(t[1])) {
            None => "none".into(),
            Some((_, None)) => "moved".into(),
            Some((k, Some(hm))) => {
                hm.update(n(t[2]) as u64);
                w.written[*k].insert(n(t[2]) as u64);
                "ok".into()
            }
        },
        "loan" => {
            // loan <h> <l>
            let (h, l) = (n(t[1]), n(t[2]));
            if w.used[L].contains(&l) {
                "dup".into()
            } else {
                match w.hmuts.get_mut(&h) {
                    None => "none".into(),
                    Some((_, None)) => "moved".into(),
                    Some((_, hm)) => {
                        let ln = hm.take().unwrap().loan();
                        w.used[L].insert(l);
                        w.loans.insert(l, (h, None, ln));
                        "ok".into()
                    }
                }
            }
        }
        "lwrite" => match w.loans.get_mut(&n(t[1])) {
            None => "none".into(),
            Some((_, written, ln)) => {
                ln.write(n(t[2]) as u64);
                *written = Some(n(t[2]) as u64);
                "ok".into()
            }
        },
        "lcommit" | "commit" | "discard" | "dloan" => match w.loans.get(&n(t[1])) {
            None => "none".into(),
            Some((_, None, _)) if t[0] == "lcommit" => "unwritten".into(),
            Some(_) => {
                let (h, last_written, ln) = w.loans.remove(&n(t[1])).unwrap();
                let k = w.hmuts.get(&h).unwrap().0;
                let back = match t[0] {
                    "lcommit" => {
                        // the value that becomes visible is the one written last into the cell
                        w.written[k].insert(last_written.unwrap());
                        Some(ln.assume_init())
                    }
                    "commit" => {
                        w.written[k].insert(n(t[2]) as u64);
                        Some(ln.update_with_copy(n(t[2]) as u64))
                    }
                    "discard" => Some(ln.discard()),
                    _ => {
                        drop(ln);
                        None
                    }
                };
                match back {
                    Some(hm) => w.hmuts.get_mut(&h).unwrap().1 = Some(hm),
                    None => {
                        w.hmuts.remove(&h);
                    }
                }
                "ok".into()
            }
        },
        "hget" | "hx" => {
            // hget <r> <k> <g> <t>   (hx: the same through Reader::__internal_entry, custom-key worlds only)
            let (rl, k, g) = (n(t[1]), n(t[2]), n(t[3]));
            if w.used[G].contains(&g) {
                "dup".into()
            } else {
                match w.readers.get(&rl) {
                    None => "none".into(),
                    Some(p) => {
                        let key = k as u64;
                        let res: Result<Option<RH<S>>, String> = match p {
                            RP::G(_) if t[0] == "hx" => panic!("bad op"),
                            RP::G(p) => match t[4] {
                                "a" => p.entry::<TA>(&key).map(|x| Some(RH::A(x, None))).map_err(|e| format!("{e:?}")),
                                "b" => p.entry::<TB>(&key).map(|x| Some(RH::B(x, None))).map_err(|e| format!("{e:?}")),
                                "c" => p.entry::<TC>(&key).map(|x| Some(RH::C(x, None))).map_err(|e| format!("{e:?}")),
                                _ => p.entry::<TD>(&key).map(|_| None).map_err(|e| format!("{e:?}")),
                            },
                            RP::X(p) => unsafe { p.__internal_entry(&key as *const u64 as *const u8, &Ty::details(t[4])) }
                                .map(|x| Ty::parse(t[4]).map(|ty| RH::X(x, ty, None)))
                                .map_err(|e| format!("{e:?}")),
                        };
                        match res {
                            Ok(Some(h)) => {
                                w.used[G].insert(g);
                                w.rhandles.insert(g, ReadHandle { key: k, h, last_seen: 0 });
                                "ok".into()
                            }
                            Ok(None) => {
                                oracle_fail("handle of a type that no key has".into());
                                "ok-foreign-type".into()
                            }
                            Err(e) => format!("err:{e}"),
                        }
                    }
                }
            }
        }
        "dhget" => match w.rhandles.remove(&n(t[1])) {
            Some(h) => {
                drop(h);
                "ok".into()
            }
            None => "none".into(),
        },
        "get" => match w.rhandles.get_mut(&n(t[1])) {
            None => "none".into(),
            Some(rh) => match rh.h.get(true) {
                Some(v) => format!("{v}"),
                None => "torn".into(),
            },
        },
        "fresh" => match w.rhandles.get(&n(t[1])) {
            None => "none".into(),
            Some(rh) => match rh.h.fresh() {
                Some(b) => format!("{b}"),
                None => "noval".into(),
            },
        },
        "dsvc" => match w.service.take() {
            Some(s) => {
                drop(s);
                "ok".into()
            }
            None => "none".into(),
        },
        "count" => match w.service.as_ref() {
Some(s) => format!("w={},r={}", s.writers(), s.readers()),
            None => "no-service".into(),
        },
        _ => panic!("bad op"),
    };
    // ---- independent oracles
    if w.writers.len() > 1 {
        oracle_fail("two live writers".into());
    }
    let mut per_key = vec![0usize; w.nkeys];
    for (k, _) in w.hmuts.values() {
        per_key[*k] += 1;
    }
    if per_key.iter().any(|c| *c > 1) {
        oracle_fail("two live write handles for one key".into());
    }
    if let Some(s) = w.service.as_ref() {
        if s.writers() > 1 {
            oracle_fail("two registered writers".into());
        }
        if s.writers() < w.writers.len() {
            oracle_fail("live writer is not registered".into());
        }
        if s.readers() != w.readers.len() {
            oracle_fail("registered readers differ from live readers".into());
        }
    }
    // every live read handle is re-read: self-consistent, written before, never older than seen before
    for rh in w.rhandles.values_mut() {
        match rh.h.get(false) {
            None => oracle_fail("torn value".into()),
            Some(v) => {
                if !w.written[rh.key].contains(&v) {
                    oracle_fail("value read was never written".into());
                }
                if v < rh.last_seen {
                    oracle_fail("read handle went back to an older value".into());
                }
                rh.last_seen = v;
            }
        }
    }
    r
}

impl Comp for BlackboardComp {
    fn exec(&mut self, t: &[&str]) -> String {
        if t[0] == "new" {
            self.w = AnyWorld::None;
            return match t[1] {
                "local" | "local-custom" => match mk::<local::Service>(t) {
                    Ok(w) => {
                        self.w = AnyWorld::Local(Box::new(w));
                        "ok".into()
                    }
                    Err(e) => e,
                },
                _ => match mk::<ipc::Service>(t) {
                    Ok(w) => {
                        self.w = AnyWorld::Ipc(Box::new(w));
                        "ok".into()
                    }
                    Err(e) => e,
                },
            };
        }
        match &mut self.w {
            AnyWorld::None => "no-world".into(),
            AnyWorld::Local(w) => exec(w, t),
            AnyWorld::Ipc(w) => exec(w, t),
        }
    }
}

// ---------------------------------------------------------------------------------------------
// generators

const TYS: [&str; 3] = ["a", "b", "c"];

pub fn generate(a: &Args) -> Vec<Vec<String>> {
    let custom = a.rest.iter().any(|x| x == "custom");
    let variant = match (a.rest.iter().any(|x| x == "ipc"), custom) {
        (false, false) => "local",
        (true, false) => "ipc",
        (false, true) => "local-custom",
        (true, true) => "ipc-custom",
    };
    // generator word `custom`: the same histories (same random choices) through the internal API of the bindings
    let (hmut, hget) = if custom { ("hmutx", "hx") } else { ("hmut", "hget") };
    if a.exhaustive > 0 {
        return exhaustive(a, variant, hmut, hget);
    }
    let mut rng = Rng::new(a.seed);
    let mut cases = vec![];
    for _ in 0..a.cases {
        let maxr = rng.range(0, 3);
        let nkeys = rng.range(1, 4) as usize;
        let tys: Vec<&str> = (0..nkeys).map(|_| *rng.pick(&TYS)).collect();
        let mut lines = vec![format!("new {variant} {maxr} {}", tys.join(" "))];
        // the generator's guess of what exists (only used to keep histories mostly valid; nothing is checked against it)
        let mut svc = true;
        let mut writers: Vec<usize> = vec![];
        let mut readers: Vec<usize> = vec![];
        let mut hmuts: Vec<(usize, usize)> = vec![]; // (h, key), not loaned
        let mut loans: Vec<(usize, usize, usize, bool)> = vec![]; // (l, h, key, written)
        let mut rhs: Vec<usize> = vec![];
        let mut cnt = [0usize; 5];
        let mut v = 0u64;
        let wrong_ty = |rng: &mut Rng, ty: &str| -> String {
            let others: Vec<&str> = ["a", "b", "c", "d"].into_iter().filter(|x| *x != ty).collect();
            rng.pick(&others).to_string()
        };
        // weights: cwriter dwriter creader dreader hmut dhmut update loan lwrite finish-loan hget dhget get fresh dsvc count
        let wts: [u64; 16] = [6, 3, 6, 3, 14, 5, 16, 9, 5, 9, 9, 3, 18, 5, 1, 3];
        let total: u64 = wts.iter().sum();
        let mut budget = rng.range(3, a.len);
        let mut guard = 0;
        while budget > 0 && guard < 10 * a.len {
            guard += 1;
            let mut c = rng.below(total);
            let mut k = 0;
            while c >= wts[k] {
                c -= wts[k];
                k += 1;
            }
            let invalid = rng.chance(7); // deliberately invalid call of this kind
            let some_label = |rng: &mut Rng, top: usize| -> usize { rng.below(top as u64 + 2) as usize };
            let l: String = match k {
                0 => {
                    let free = svc && writers.is_empty() && hmuts.is_empty() && loans.is_empty();
                    if !free && !invalid && !rng.chance(10) {
                        continue;
                    }
                    if invalid && cnt[W] > 0 && rng.chance(30) {
                        format!("cwriter {}", rng.below(cnt[W] as u64))
                    } else {
                        let w = cnt[W];
                        if free {
                            cnt[W] += 1;
                            writers.push(w);
                        }
                        format!("cwriter {w}")
                    }
                }
                1 => {
                    if invalid || writers.is_empty() {
                        if !invalid {
                            continue;
                        }
                        format!("dwriter {}", some_label(&mut rng, cnt[W]))
                    } else {
                        // mostly keep the writer while nothing else could be done without it
                        let w = *rng.pick(&writers);
                        writers.retain(|x| *x != w);
                        format!("dwriter {w}")
                    }
                }
                2 => {
                    let free = svc && readers.len() < (maxr.max(1) as usize);
                    if !free && !invalid && !rng.chance(15) {
                        continue;
                    }
                    if invalid && cnt[R] > 0 && rng.chance(30) {
                        format!("creader {}", rng.below(cnt[R] as u64))
                    } else {
                        let r = cnt[R];
                        if free {
                            cnt[R] += 1;
                            readers.push(r);
                        }
                        format!("creader {r}")
                    }
                }
                3 => {
                    if invalid || readers.is_empty() {
                        if !invalid {
                            continue;
                        }
                        format!("dreader {}", some_label(&mut rng, cnt[R]))
                    } else {
                        let r = *rng.pick(&readers);
                        readers.retain(|x| *x != r);
                        format!("dreader {r}")
                    }
                }
                4 => {
                    if writers.is_empty() && !invalid {
                        continue;
                    }
                    let w = if writers.is_empty() || (invalid && rng.chance(25)) { some_label(&mut rng, cnt[W]) } else { *rng.pick(&writers) };
                    let mut key = rng.below(nkeys as u64) as usize;
                    let busy = |key: usize, hmuts: &Vec<(usize, usize)>, loans: &Vec<(usize, usize, usize, bool)>| hmuts.iter().any(|x| x.1 == key) || loans.iter().any(|x| x.2 == key);
                    if busy(key, &hmuts, &loans) && !rng.chance(20) {
                        // prefer a key without handle
                        if let Some(k2) = (0..nkeys).find(|k2| !busy(*k2, &hmuts, &loans)) {
                            key = k2;
                        }
                    }
                    let mut ty = tys[key].to_string();
                    let mut good = writers.contains(&w) && !busy(key, &hmuts, &loans);
                    if invalid {
                        match rng.below(3) {
                            0 => {
                                key = nkeys + rng.below(2) as usize;
                                ty = rng.pick(&["a", "b", "c", "d"]).to_string();
                                good = false;
                            }
                            1 => {
                                ty = wrong_ty(&mut rng, tys[key]);
                                good = false;
                            }
                            _ => {}
                        }
                    }
                    if invalid && cnt[H] > 0 && rng.chance(20) {
                        format!("{hmut} {w} {key} {} {ty}", rng.below(cnt[H] as u64))
                    } else {
                        let h = cnt[H];
                        if good {
                            cnt[H] += 1;
                            hmuts.push((h, key));
                        }
                        format!("{hmut} {w} {key} {h} {ty}")
                    }
                }
                5 => {
                    if invalid || hmuts.is_empty() {
                        if !invalid {
                            continue;
                        }
                        format!("dhmut {}", some_label(&mut rng, cnt[H]))
                    } else {
                        let h = rng.pick(&hmuts).0;
                        hmuts.retain(|x| x.0 != h);
                        format!("dhmut {h}")
                    }
                }
                6 => {
                    if invalid || hmuts.is_empty() {
                        if !invalid {
                            continue;
                        }
                        v += 1;
                        format!("update {} {v}", some_label(&mut rng, cnt[H]))
                    } else {
                        v += 1;
                        format!("update {} {v}", rng.pick(&hmuts).0)
                    }
                }
                7 => {
                    if invalid || hmuts.is_empty() {
                        if !invalid {
                            continue;
                        }
                        format!("loan {} {}", some_label(&mut rng, cnt[H]), some_label(&mut rng, cnt[L]))
                    } else {
                        let (h, key) = *rng.pick(&hmuts);
                        let l = cnt[L];
                        cnt[L] += 1;
                        hmuts.retain(|x| x.0 != h);
                        loans.push((l, h, key, false));
                        format!("loan {h} {l}")
                    }
                }
                8 => {
                    if invalid || loans.is_empty() {
                        if !invalid {
                            continue;
                        }
                        v += 1;
                        format!("lwrite {} {v}", some_label(&mut rng, cnt[L]))
                    } else {
                        let i = rng.below(loans.len() as u64) as usize;
                        loans[i].3 = true;
                        v += 1;
                        format!("lwrite {} {v}", loans[i].0)
                    }
                }
                9 => {
                    if invalid || loans.is_empty() {
                        if !invalid {
                            continue;
                        }
                        let l = some_label(&mut rng, cnt[L]);
                        v += 1;
                        match rng.below(4) {
                            0 => format!("commit {l} {v}"),
                            1 => format!("lcommit {l}"),
                            2 => format!("discard {l}"),
                            _ => format!("dloan {l}"),
                        }
                    } else {
                        let i = rng.below(loans.len() as u64) as usize;
                        let (l, h, key, mut written) = loans[i];
                        let how = rng.below(100);
                        let op = if how < 40 {
                            v += 1;
                            format!("commit {l} {v}")
                        } else if how < 65 {
                            if !written && rng.chance(85) {
                                v += 1;
                                lines.push(format!("lwrite {l} {v}"));
                                written = true;
                            }
                            format!("lcommit {l}")
                        } else if how < 88 {
                            format!("discard {l}")
                        } else {
                            format!("dloan {l}")
                        };
                        // an `lcommit` of a loan nothing was written to is refused: the loan stays
                        let stays = op.starts_with("lcommit") && !written;
                        if !stays {
                            loans.remove(i);
                            if !op.starts_with("dloan") {
                                hmuts.push((h, key));
                            }
                        }
                        op
                    }
                }
                10 => {
                    if readers.is_empty() && !invalid {
                        continue;
                    }
                    let r = if readers.is_empty() || (invalid && rng.chance(25)) { some_label(&mut rng, cnt[R]) } else { *rng.pick(&readers) };
                    let mut key = rng.below(nkeys as u64) as usize;
                    let mut ty = tys[key].to_string();
                    let mut good = readers.contains(&r);
                    if invalid {
                        match rng.below(3) {
                            0 => {
                                key = nkeys + rng.below(2) as usize;
                                ty = rng.pick(&["a", "b", "c", "d"]).to_string();
                                good = false;
                            }
                            1 => {
                                ty = wrong_ty(&mut rng, tys[key]);
                                good = false;
                            }
                            _ => {}
                        }
                    }
                    if invalid && cnt[G] > 0 && rng.chance(20) {
                        format!("{hget} {r} {key} {} {ty}", rng.below(cnt[G] as u64))
                    } else {
                        let g = cnt[G];
                        if good {
                            cnt[G] += 1;
                            rhs.push(g);
                        }
                        format!("{hget} {r} {key} {g} {ty}")
                    }
                }
                11 => {
                    if invalid || rhs.is_empty() {
                        if !invalid {
                            continue;
                        }
                        format!("dhget {}", some_label(&mut rng, cnt[G]))
                    } else {
                        let g = *rng.pick(&rhs);
                        rhs.retain(|x| *x != g);
                        format!("dhget {g}")
                    }
                }
                12 | 13 => {
                    let g = if invalid || rhs.is_empty() {
                        if !invalid {
                            continue;
                        }
                        some_label(&mut rng, cnt[G])
                    } else {
                        *rng.pick(&rhs)
                    };
                    if k == 12 { format!("get {g}") } else { format!("fresh {g}") }
                }
                14 => {
                    if !rng.chance(40) {
                        continue;
                    }
                    svc = false;
                    "dsvc".to_string()
                }
                _ => "count".to_string(),
            };
            lines.push(l);
            budget -= 1;
        }
        cases.push(lines);
    }
    cases
}

/// every sequence of length `exhaustive` over a fixed alphabet (labels are assigned by counters so that the same
/// letter always means "the next new object" / "the oldest object not yet dropped")
fn exhaustive(a: &Args, variant: &str, hmut: &str, hget: &str) -> Vec<Vec<String>> {
    let mut cases = vec![];
    let configs = ["1 a b", "2 b c"];
    let alphabet: Vec<String> = [
        "cwriter", "dwriter", "hmut 0", "hmut 1", "hmut 0 wrong", "dhmut", "update", "loan", "commit", "lwrite", "lcommit", "discard", "dloan", "creader", "dreader", "hget 0",
        "dhget", "get", "fresh", "dsvc",
    ]
    .iter()
    .map(|x| x.to_string())
    .collect();
    for cfg in configs {
        let tys: Vec<&str> = cfg.split(' ').skip(1).collect();
        enumerate_seqs(&alphabet, a.exhaustive as usize, &mut |seq| {
            // prefix: a writer with a handle on key 0, a reader with a read handle on key 0, one update, one read
            let mut lines = vec![
                format!("new {variant} {cfg}"),
                "cwriter 0".to_string(),
                "creader 0".to_string(),
                format!("{hmut} 0 0 0 {}", tys[0]),
                format!("{hget} 0 0 0 {}", tys[0]),
                "update 0 1".to_string(),
                "get 0".to_string(),
            ];
            // counters: next new label / oldest label not yet dropped, per class
            let (mut nw, mut nr, mut nh, mut nl, mut ng) = (1usize, 1usize, 1usize, 0usize, 1usize);
            let (mut dw, mut dr, mut dh, mut dg) = (0usize, 0usize, 0usize, 0usize);
            let mut v = 1u64;
            for &i in seq {
                let cur_w = nw - 1; // the newest writer label
                let cur_h = nh - 1;
                let cur_l = nl.saturating_sub(1);
                let cur_g = ng - 1;
                match alphabet[i].as_str() {
                    "cwriter" => {
                        lines.push(format!("cwriter {nw}"));
                        nw += 1;
                    }
                    "dwriter" => {
                        lines.push(format!("dwriter {dw}"));
                        dw += 1;
                    }
                    "hmut 0" => {
                        lines.push(format!("{hmut} {cur_w} 0 {nh} {}", tys[0]));
                        nh += 1;
                    }
                    "hmut 1" => {
                        lines.push(format!("{hmut} {cur_w} 1 {nh} {}", tys[1]));
                        nh += 1;
                    }
                    "hmut 0 wrong" => {
                        lines.push(format!("{hmut} {cur_w} 0 {nh} {}", tys[1]));
                        nh += 1;
                    }
                    "dhmut" => {
                        lines.push(format!("dhmut {dh}"));
                        dh += 1;
                    }
                    "update" => {
                        v += 1;
                        lines.push(format!("update {cur_h} {v}"));
                    }
                    "loan" => {
                        lines.push(format!("loan {cur_h} {nl}"));
                        nl += 1;
                    }
                    "commit" => {
                        v += 1;
                        lines.push(format!("commit {cur_l} {v}"));
                    }
                    "lwrite" => {
                        v += 1;
                        lines.push(format!("lwrite {cur_l} {v}"));
                    }
                    "lcommit" => lines.push(format!("lcommit {cur_l}")),
                    "discard" => lines.push(format!("discard {cur_l}")),
                    "dloan" => lines.push(format!("dloan {cur_l}")),
                    "creader" => {
                        lines.push(format!("creader {nr}"));
                        nr += 1;
                    }
                    "dreader" => {
                        lines.push(format!("dreader {dr}"));
                        dr += 1;
                    }
                    "hget 0" => {
                        lines.push(format!("{hget} {} 0 {ng} {}", nr - 1, tys[0]));
                        ng += 1;
                    }
                    "dhget" => {
                        lines.push(format!("dhget {dg}"));
                        dg += 1;
                    }
                    "get" => lines.push(format!("get {cur_g}")),
                    "fresh" => lines.push(format!("fresh {cur_g}")),
                    x => lines.push(x.to_string()),
                }
            }
            lines.push("count".to_string());
            lines.push("get 0".to_string());
            cases.push(lines);
        });
    }
    cases
}
