#!/usr/bin/env python3
"""Translator: regenerates lean/Iox2/Gen/ApiOrder.lean from /repo on every run.

For each port function of the table below the function body is cut out of the source (comments and
string literals removed, braces matched) and the ORDER of the tracked calls in it is emitted as a
Lean list of `Iox2.Compose.Src`.  The composition models (`Model/Compose.lean`) build the per-call
programs from these lists; the theorems of `Props/C12Compose.lean` / `Props/C11Compose.lean` are
about the generated programs, so an edit that exchanges two tracked calls changes the program the
theorems have to be proved for.

Fails closed: a function that is not found (exactly once per listed impl type), or a tracked call
that occurs inside a loop / closure more than the table allows, is an error.
Calls that are not in a function's vocabulary are ignored (logging, error mapping, arithmetic).
"""
import os, re, sys, json

REPO = os.environ.get("VERIF_REPO", "/repo")
HERE = os.path.dirname(os.path.abspath(__file__))
OUT = os.path.join(HERE, "..", "lean", "Iox2", "Gen", "ApiOrder.lean")
OUT_JSON = os.path.join(HERE, "..", "lean", "Iox2", "Gen", "api_order.json")

# vocabulary: regular expression -> Src constructor
W = [
    (r"__internal_get_ptr_to_write_cell\s*\(", "getPtr"),
    (r"\bptr\s*\.\s*write\s*\(", "writeValue"),
    (r"__internal_update_write_cell\s*\(", "publish"),
    (r"\bproducer\s*\.\s*store\s*\(", "store"),
]
C = [
    (r"\bupdate_connections\s*\(", "refresh"),
    (r"\bprepare_channel_to_receive_responses\s*\(", "openChannel"),
    (r"\bactive_request_counter\s*\.\s*fetch_add\s*\(", "count"),
    (r"\bdeliver_offset\s*\(", "deliver"),
]
S = [
    (r"\breceive_impl\s*\(", "pop"),
    (r"\bget_connection_id_of\s*\(", "lookup"),
    (r"\bis_connected\s*\(", "checkConnected"),
    (r"\brelease_offset\s*\(", "giveBack"),
]

P = [
    (r"\bupdate_connections\s*\(", "refresh"),
    (r"\badd_sample_to_history\s*\(", "addHistory"),
    (r"\bdeliver_offset\s*\(", "deliver"),
]

# (lean name, file, impl type (word that must occur in the impl header), fn name, vocabulary, expected number of definitions)
TABLE = [
    ("entryValueUninit_new", "iceoryx2/src/port/writer.rs", "EntryValueUninit", "new", W),
    ("entryValueUninit_updateWithCopy", "iceoryx2/src/port/writer.rs", "EntryValueUninit", "update_with_copy", W),
    ("entryValueUninit_assumeInitAndUpdate", "iceoryx2/src/port/writer.rs", "EntryValueUninit", "assume_init_and_update", W),
    ("entryHandleMut_updateWithCopy", "iceoryx2/src/port/writer.rs", "EntryHandleMut", "update_with_copy", W),
    ("internalEntryValueUninit_new", "iceoryx2/src/port/writer.rs", "__InternalEntryValueUninit", "new", W),
    ("internalEntryValueUninit_update", "iceoryx2/src/port/writer.rs", "__InternalEntryValueUninit", "update", W),
    ("client_sendRequest", "iceoryx2/src/port/client.rs", "ClientSharedState", "send_request", C),
    ("server_receive", "iceoryx2/src/port/server.rs", "Server", "receive", S),
    ("publisher_sendSample", "iceoryx2/src/port/publisher.rs", "PublisherSharedState", "send_sample", P),
]


CHAR = re.compile(r"'(?:\\(?:u\{[0-9a-fA-F_]+\}|x[0-9a-fA-F]{2}|.)|[^\\'\n])'")


def strip(src):
    """remove comments, string and char literals (keeps length irrelevant)"""
    out = []
    i, n = 0, len(src)
    while i < n:
        c = src[i]
        if src.startswith("//", i):
            j = src.find("\n", i)
            i = n if j < 0 else j
        elif src.startswith("/*", i):
            depth, i = 1, i + 2
            while i < n and depth:
                if src.startswith("/*", i): depth += 1; i += 2
                elif src.startswith("*/", i): depth -= 1; i += 2
                else: i += 1
        elif c == '"':
            i += 1
            while i < n and src[i] != '"':
                i += 2 if src[i] == "\\" else 1
            i += 1
            out.append('""')
        elif c == "'" and CHAR.match(src, i):
            i = CHAR.match(src, i).end()
            out.append("' '")
        else:
            out.append(c); i += 1
    return "".join(out)


def block_end(s, open_idx):
    depth = 0
    for k in range(open_idx, len(s)):
        if s[k] == "{": depth += 1
        elif s[k] == "}":
            depth -= 1
            if depth == 0:
                return k
    raise ValueError("unbalanced braces")


def impl_blocks(s, ty):
    """bodies of every `impl … ty … {` block (inherent or trait impl) whose header names the type as a whole word"""
    res = []
    for m in re.finditer(r"\bimpl\b", s):
        o = s.find("{", m.end())
        if o < 0:
            continue
        header = s[m.end():o]
        if ";" in header:
            continue
        # the implementing type is what follows the last ` for ` (trait impl) or the whole header
        target = header.split(" for ")[-1] if re.search(r"\bfor\b", header) else header
        # strip the generic parameter list `<…>` directly after `impl`
        t = target.strip()
        if t.startswith("<"):
            depth = 0
            for k, ch in enumerate(t):
                if ch == "<": depth += 1
                elif ch == ">":
                    depth -= 1
                    if depth == 0:
                        t = t[k + 1:]
                        break
        mt = re.match(r"\s*([A-Za-z_][A-Za-z_0-9:]*)", t)
        if mt and mt.group(1).split("::")[-1] == ty:
            res.append(s[o:block_end(s, o) + 1])
    return res


def fn_bodies(block, name):
    res = []
    depth = 0
    for m in re.finditer(r"\bfn\s+" + re.escape(name) + r"\b", block):
        # only functions directly inside the impl block (depth 1)
        d = block.count("{", 0, m.start()) - block.count("}", 0, m.start())
        if d != 1:
            continue
        o = block.find("{", m.end())
        semi = block.find(";", m.end())
        if o < 0 or (0 <= semi < o):
            continue
        res.append(block[o:block_end(block, o) + 1])
    return res


def order(body, vocab):
    hits = []
    for rx, name in vocab:
        for m in re.finditer(rx, body):
            hits.append((m.start(), name))
    return [n for (_, n) in sorted(hits)]


def main():
    result = {}
    errors = []
    cache = {}
    for (lean, path, ty, fn, vocab) in TABLE:
        full = os.path.join(REPO, path)
        if full not in cache:
            try:
                cache[full] = strip(open(full, encoding="utf-8").read())
            except OSError as e:
                errors.append(f"{path}: {e}")
                continue
        bodies = []
        for b in impl_blocks(cache[full], ty):
            bodies += fn_bodies(b, fn)
        if not bodies:
            errors.append(f"{path}: fn {fn} of impl {ty} not found")
            continue
        orders = [order(b, vocab) for b in bodies]
        if any(o != orders[0] for o in orders):
            errors.append(f"{path}: the {len(bodies)} definitions of {ty}::{fn} disagree: {orders}")
            continue
        result[lean] = dict(file=path, impl=ty, fn=fn, definitions=len(bodies), order=orders[0])
    if errors:
        print("\n".join(errors), file=sys.stderr)
        return 1
    lines = ["-- GENERATED by extract/api_order.py from the working tree of /repo — do not edit", "import Iox2.Model.Compose",
             "namespace Iox2.Gen.ApiOrder", "open Iox2.Compose", ""]
    for k, v in result.items():
        lines.append(f"/-- `{v['impl']}::{v['fn']}` ({v['file']}, {v['definitions']} definition(s)) -/")
        lines.append(f"def {k} : List Src := [" + ", ".join("." + s for s in v["order"]) + "]")
    lines += ["", "end Iox2.Gen.ApiOrder", ""]
    text = "\n".join(lines)
    old = open(OUT).read() if os.path.exists(OUT) else None
    if old != text:
        open(OUT, "w").write(text)
    json.dump(result, open(OUT_JSON, "w"), indent=1, sort_keys=True)
    print(json.dumps(dict(functions=len(result), orders={k: v["order"] for k, v in result.items()})))
    return 0


if __name__ == "__main__":
    sys.exit(main())
