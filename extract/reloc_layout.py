#!/usr/bin/env python3
"""C14 translator: regenerates lean/Iox2/Gen/RelocLayout.lean from /repo on every run.

For every data structure iceoryx2 places in shared memory (the roots below) the struct definitions are
parsed from the source and every field is classified by its type:
  int        plain integers, bools, atomics, cells of those, arrays of those
  payload    the user's element type (MaybeUninit<T>, Option<T>, [T; N] ...): the element types are the
             user's responsibility (trait ZeroCopySend), outside this property
  relptr     RelocatablePointer<..> (self-relative distance), or the pointer family / pointer type
             parameter of a generic structure — which the *relocatable* alias instantiates with the
             relocatable pointer (checked: the alias must name GenericRelocatablePointer /
             RelocatablePointer)
  phantom    PhantomData
  nested S   another struct of the table
  number     a machine address that is stored but only used as a number (explicitly whitelisted below
             with the justification; its use is exercised by the relocation runs of the allocator)
  forbidden  raw pointers, references, owning pointers, Box/Vec/String/Arc/Rc, fn pointers, trait objects
The translator FAILS CLOSED: an unknown type, a root that cannot be found, or an alias that does not
instantiate the relocatable pointer family is an error.
"""
import os, re, sys, json

REPO = os.environ.get("VERIF_REPO", "/repo")
OUT = os.path.join(os.path.dirname(os.path.abspath(__file__)), "..", "lean", "Iox2", "Gen", "RelocLayout.lean")

FILES = [
    "iceoryx2-bb/elementary/src/relocatable_pointer.rs",
    "iceoryx2-bb/elementary/src/sync_pointer.rs",
    "iceoryx2-bb/elementary/src/unique_id.rs",
    "iceoryx2-bb/container/src/vector/relocatable_vec.rs",
    "iceoryx2-bb/container/src/vec.rs",
    "iceoryx2-bb/container/src/queue.rs",
    "iceoryx2-bb/container/src/slotmap.rs",
    "iceoryx2-bb/container/src/flatmap.rs",
    "iceoryx2-bb/container/src/string/relocatable_string.rs",
    "iceoryx2-bb/lock-free/src/mpmc/container.rs",
    "iceoryx2-bb/lock-free/src/mpmc/unique_index_set.rs",
    "iceoryx2-bb/lock-free/src/mpmc/robust_unique_index_set.rs",
    "iceoryx2-bb/lock-free/src/mpmc/bit_set.rs",
    "iceoryx2-bb/lock-free/src/mpmc/counting_bit_set.rs",
    "iceoryx2-bb/lock-free/src/spsc/index_queue.rs",
    "iceoryx2-bb/lock-free/src/spsc/safely_overflowing_index_queue.rs",
    "iceoryx2-cal/src/zero_copy_connection/used_chunk_list.rs",
    "iceoryx2-cal/src/shm_allocator/pool_allocator.rs",
    "iceoryx2-cal/src/shm_allocator/pointer_offset.rs",
    "iceoryx2-bb/memory/src/pool_allocator.rs",
]

# root = (display name, file, struct name, alias that must instantiate the relocatable pointer or None)
ROOTS = [
    ("RelocatablePointer", "iceoryx2-bb/elementary/src/relocatable_pointer.rs", "RelocatablePointer", None),
    ("RelocatableVec", "iceoryx2-bb/container/src/vector/relocatable_vec.rs", "RelocatableVec", None),
    ("RelocatableQueue", "iceoryx2-bb/container/src/queue.rs", "MetaQueue", "RelocatableQueue"),
    ("RelocatableSlotMap", "iceoryx2-bb/container/src/slotmap.rs", "MetaSlotMap", "RelocatableSlotMap"),
    ("RelocatableFlatMap", "iceoryx2-bb/container/src/flatmap.rs", "MetaFlatMap", "RelocatableFlatMap"),
    ("RelocatableString", "iceoryx2-bb/container/src/string/relocatable_string.rs", "RelocatableString", None),
    ("Container", "iceoryx2-bb/lock-free/src/mpmc/container.rs", "Container", None),
    ("UniqueIndexSet", "iceoryx2-bb/lock-free/src/mpmc/unique_index_set.rs", "UniqueIndexSet", None),
    ("RobustUniqueIndexSet", "iceoryx2-bb/lock-free/src/mpmc/robust_unique_index_set.rs", "RobustUniqueIndexSet", None),
    ("RelocatableBitSet", "iceoryx2-bb/lock-free/src/mpmc/bit_set.rs", "BitSet", "RelocatableBitSet"),
    ("RelocatableIndexQueue", "iceoryx2-bb/lock-free/src/spsc/index_queue.rs", "IndexQueue", "RelocatableIndexQueue"),
    ("RelocatableSafelyOverflowingIndexQueue", "iceoryx2-bb/lock-free/src/spsc/safely_overflowing_index_queue.rs",
     "SafelyOverflowingIndexQueue", "RelocatableSafelyOverflowingIndexQueue"),
    ("RelocatableUsedChunkList", "iceoryx2-cal/src/zero_copy_connection/used_chunk_list.rs", "UsedChunkList", "RelocatableUsedChunkList"),
    ("ShmPoolAllocator", "iceoryx2-cal/src/shm_allocator/pool_allocator.rs", "PoolAllocator", None),
    ("PointerOffset", "iceoryx2-cal/src/shm_allocator/pointer_offset.rs", "PointerOffset", None),
]

# (file, struct, field): an address kept as a number — justification recorded in DESIGN.md §5 C14
NUMBER_WHITELIST = {
    ("iceoryx2-bb/memory/src/pool_allocator.rs", "PoolAllocator", "start"):
        "the shm pool allocator hands the bucket allocator the creator's base address as the start of a number range; "
        "results are only ever used as offsets (ptr - base_address), never dereferenced",
    ("iceoryx2-cal/src/shm_allocator/pool_allocator.rs", "PoolAllocator", "base_address"):
        "documented in the source: every process computes the same relative offsets from this number",
}

INT = r"(?:usize|isize|u8|u16|u32|u64|u128|i8|i16|i32|i64|i128|bool|SegmentIdUnderlyingType|BitsetElement|details::BitsetElement)"
ATOMIC = r"(?:Atomic(?:Bool|U8|U16|U32|U64|Usize|Isize|I8|I16|I32|I64)|IoxAtomic\w+)"


def die(msg):
    print("reloc_layout: " + msg, file=sys.stderr)
    sys.exit(2)


def strip_comments(src):
    src = re.sub(r"//[^\n]*", "", src)
    return re.sub(r"/\*.*?\*/", "", src, flags=re.S)


def parse_structs(path):
    """-> {name: [(field, type)] }, {alias: rhs}"""
    src = strip_comments(open(os.path.join(REPO, path)).read())
    structs, aliases = {}, {}
    for m in re.finditer(r"\bstruct\s+(\w+)\s*(<[^{;(]*>)?\s*(?:where[^{]*)?\{", src):
        name = m.group(1)
        i = m.end()
        depth, j = 1, i
        while depth and j < len(src):
            depth += {"{": 1, "}": -1}.get(src[j], 0)
            j += 1
        body = src[i:j - 1]
        fields, cur, d = [], "", 0
        for ch in body:
            if ch in "<([{":
                d += 1
            if ch in ">)]}":
                d -= 1
            if ch == "," and d == 0:
                fields.append(cur); cur = ""
            else:
                cur += ch
        fields.append(cur)
        fl = []
        for f in fields:
            f = re.sub(r"#\[[^\]]*\]", "", f).strip()
            if not f:
                continue
            mm = re.match(r"(?:pub(?:\([^)]*\))?\s+)?(\w+)\s*:\s*(.+)$", f, flags=re.S)
            if not mm:
                die(f"{path}: cannot parse field `{f}` of struct {name}")
            fl.append((mm.group(1), " ".join(mm.group(2).split())))
        structs.setdefault(name, fl)
    for m in re.finditer(r"\bstruct\s+(\w+)\s*(?:<[^;{(]*>)?\s*\(([^;]*)\)\s*;", src):
        structs.setdefault(m.group(1), [(str(k), " ".join(t.replace("pub(crate)", "").replace("pub", "").split()))
                                        for k, t in enumerate(m.group(2).split(","))])
    for m in re.finditer(r"\btype\s+(\w+)\s*(?:<[^=]*>)?\s*=\s*([^;]+);", src):
        aliases[m.group(1)] = " ".join(m.group(2).split())
    return structs, aliases


def main():
    table = {}     # (file, struct) -> fields
    aliases = {}
    for f in FILES:
        if not os.path.exists(os.path.join(REPO, f)):
            die(f"source file {f} is missing")
        st, al = parse_structs(f)
        for n, fl in st.items():
            table[(f, n)] = fl
        for a, rhs in al.items():
            aliases[(f, a)] = rhs
    by_name = {}
    for (f, n) in table:
        by_name.setdefault(n, []).append(f)

    def locate(name, near):
        full = name
        name = name.split("::")[-1]
        m = re.match(r"iceoryx2_(bb|cal)_?(\w*)::(\w+)::", full)
        if m:
            # crate-qualified path: iceoryx2_bb_memory::pool_allocator::X -> iceoryx2-bb/memory/src/pool_allocator.rs
            cand = f"iceoryx2-{m.group(1)}/{m.group(2).replace('_', '-')}/src/{m.group(3)}.rs" if m.group(2) else f"iceoryx2-{m.group(1)}/src/{m.group(3)}.rs"
            if (cand, name) in table:
                return (cand, name)
            die(f"{near}: cannot resolve crate path {full} (expected {cand})")
        if (near, name) in table:
            return (near, name)
        fs = by_name.get(name, [])
        if len(fs) == 1:
            return (fs[0], name)
        return None

    out_structs = {}
    generic_ptr_params = {}

    def classify(file, sname, fname, ty, params):
        t = ty
        if (file, sname, fname) in NUMBER_WHITELIST:
            return ("number", NUMBER_WHITELIST[(file, sname, fname)])
        if re.search(r"\*\s*(?:mut|const)\b|&|\bBox\s*<|\bVec\s*<|\bNonNull\s*<|\bArc\s*<|\bRc\s*<|\bString\b|\bfn\s*\(|\bdyn\b|\bOwningPointer\b|\bSyncPointer\b", t):
            return ("forbidden", t)
        if re.fullmatch(r"PhantomData\s*<.*>", t):
            return ("phantom", "")
        if re.fullmatch(r"RelocatablePointer\s*<.*>", t):
            return ("relptr", "")
        # pointer family / pointer type parameter of the generic structure
        if re.fullmatch(r"(\w+)::Pointer\s*<.*>", t) and re.match(r"(\w+)::", t).group(1) in params:
            generic_ptr_params.setdefault((file, sname), set()).add(re.match(r"(\w+)::", t).group(1))
            return ("relptr", "")
        if t in params and re.search(r"Pointer", params[t] or ""):
            generic_ptr_params.setdefault((file, sname), set()).add(t)
            return ("relptr", "")
        inner = t
        for _ in range(6):
            m = re.fullmatch(r"(?:UnsafeCell|MaybeUninit|Option|core::cell::UnsafeCell)\s*<(.+)>", inner) or re.fullmatch(r"\[\s*(.+?)\s*;\s*[\w:()\s*+-]+\]", inner)
            if not m:
                break
            inner = m.group(1).strip()
        if re.fullmatch(INT, inner) or re.fullmatch(ATOMIC, inner):
            return ("int", "")
        if inner in params and not re.search(r"Pointer", params[inner] or ""):
            return ("payload", inner)
        m = re.fullmatch(r"([\w:]+)\s*(<.*>)?", inner)
        if m:
            loc = locate(m.group(1), file)
            if loc:
                # a pointer-family parameter handed on to the nested generic structure
                for a in re.findall(r"\b\w+\b", m.group(2) or ""):
                    if a in params and re.search(r"Pointer", params[a] or ""):
                        generic_ptr_params.setdefault((file, sname), set()).add(a)
                walk(loc)
                return ("nested", f"{loc[1]}@{loc[0]}")
            # a generic element type instantiated with a payload parameter, e.g. Entry<K, V>
        die(f"{file}: struct {sname}, field {fname}: cannot classify type `{ty}` (new pattern: extend the translator)")

    def walk(key):
        if key in out_structs:
            return
        file, sname = key
        out_structs[key] = None
        src = strip_comments(open(os.path.join(REPO, file)).read())
        m = re.search(r"\bstruct\s+" + sname + r"\s*<([^{;(]*)>\s*(?:where[^{]*)?[{(]", src)
        params = {}
        if m:
            depth, cur, parts = 0, "", []
            for ch in m.group(1):
                if ch in "<([":
                    depth += 1
                if ch in ">)]":
                    depth -= 1
                if ch == "," and depth == 0:
                    parts.append(cur); cur = ""
                else:
                    cur += ch
            parts.append(cur)
            for p in parts:
                p = p.strip()
                if not p or p.startswith("'") or p.startswith("const "):
                    continue
                nm = p.split(":")[0].strip()
                params[nm] = p.split(":", 1)[1].strip() if ":" in p else ""
        out_structs[key] = [(fn, classify(file, sname, fn, ty, params), ty) for (fn, ty) in table[key]]

    # the relocatable pointer family must resolve to the relocatable pointer
    rp = strip_comments(open(os.path.join(REPO, "iceoryx2-bb/elementary/src/relocatable_pointer.rs")).read())
    if not re.search(r"impl\s+PointerFamily\s+for\s+GenericRelocatablePointer\s*\{\s*type\s+Pointer\s*<[^>]*>\s*=\s*RelocatablePointer\s*<\s*T\s*>\s*;", rp):
        die("GenericRelocatablePointer::Pointer<T> is not RelocatablePointer<T> any more")
    roots = []
    for (disp, file, sname, alias) in ROOTS:
        key = locate(sname, file)
        if key is None or key[0] != file:
            die(f"root {disp}: struct {sname} not found in {file}")
        walk(key)
        if alias is not None:
            rhs = aliases.get((file, alias))
            if rhs is None:
                die(f"root {disp}: alias {alias} not found in {file}")
            if not re.search(r"GenericRelocatablePointer|RelocatablePointer\s*<", rhs) or not re.search(r"\b" + sname + r"\b", rhs):
                die(f"root {disp}: alias {alias} = {rhs} does not instantiate {sname} with the relocatable pointer")
            if not generic_ptr_params.get(key):
                die(f"root {disp}: {sname} has no pointer-family field although it is instantiated through {alias}")
        roots.append((disp, f"{key[1]}@{key[0]}"))

    def lean_str(s):
        return '"' + s.replace("\\", "\\\\").replace('"', '\\"') + '"'

    lines = ["/- GENERATED by /verif/extract/reloc_layout.py from /repo — do not edit. -/",
             "namespace Iox2.Gen.RelocLayout", "",
             "inductive Kind where", "  | int | payload | relptr | phantom | number", "  | nested (s : String)", "  | forbidden (ty : String)",
             "deriving Repr, DecidableEq", "",
             "structure Field where", "  name : String", "  kind : Kind", "deriving Repr, DecidableEq", "",
             "structure StructDef where", "  name : String", "  fields : List Field", "deriving Repr, DecidableEq", "",
             "def structs : List StructDef := ["]
    items = []
    for key in sorted(out_structs, key=lambda k: (k[1], k[0])):
        fl = out_structs[key]
        fs = []
        for (fn, (kind, arg), ty) in fl:
            k = {"int": ".int", "payload": ".payload", "relptr": ".relptr", "phantom": ".phantom", "number": ".number"}.get(kind)
            if kind == "nested":
                k = f".nested {lean_str(arg)}"
            if kind == "forbidden":
                k = f".forbidden {lean_str(arg)}"
            fs.append(f"{{ name := {lean_str(fn)}, kind := {k} }}")
        items.append(f"  {{ name := {lean_str(key[1] + '@' + key[0])},\n    fields := [" + ",\n               ".join(fs) + "] }")
    lines.append(",\n".join(items) + "]")
    lines += ["", "/-- the structures placed in shared memory (display name, struct) -/",
              "def roots : List (String × String) := [" + ", ".join(f"({lean_str(d)}, {lean_str(s)})" for d, s in roots) + "]", "",
              "end Iox2.Gen.RelocLayout", ""]
    os.makedirs(os.path.dirname(OUT), exist_ok=True)
    new = "\n".join(lines)
    if not os.path.exists(OUT) or open(OUT).read() != new:
        open(OUT, "w").write(new)
    summary = dict(structs=len(out_structs), roots=len(roots),
                   fields=sum(len(v) for v in out_structs.values()),
                   forbidden=[(k[1], fn, arg) for k, v in out_structs.items() for (fn, (kind, arg), ty) in v if kind == "forbidden"],
                   numbers=[(k[1], fn) for k, v in out_structs.items() for (fn, (kind, arg), ty) in v if kind == "number"])
    json.dump(summary, open(os.path.join(os.path.dirname(OUT), "reloc_layout.json"), "w"), indent=1)
    print(json.dumps(summary))


if __name__ == "__main__":
    main()
