#!/usr/bin/env python3
"""C18 translator: error tables of the C binding, regenerated from the Rust sources on every run.

Reads   <repo>/iceoryx2-ffi/c/src/api/*.rs        (C enums, IntoCInt / From mappings, *_string functions)
        <repo>/iceoryx2-ffi/ffi-macros/src/lib.rs (presence check of the CStrRepr derive; its naming
                                                   rule `variant_name_to_string` is transcribed below)
        <repo>/iceoryx2*/…/src/**/*.rs            (definitions of the Rust error enums, found by name)
Writes  <verif>/lean/Iox2/Gen/FfiErrors.lean      (core Lean only, deterministic)
        <verif>/lean/Iox2/Gen/ffi_errors.json     (same table, for the harness and the python re-check)

Fails closed: every construct that is not one of the recognised shapes raises `Unsupported` (exit 2)
with file:line; nothing is skipped silently (the summary lists every enum that was classified as
"not an error enum" together with the rule that classified it).

usage: ffi_errors.py [--repo /repo] [--out-lean F] [--out-json F] [--quiet]
"""
import os, re, sys, json, glob, argparse

VERIF = os.path.dirname(os.path.dirname(os.path.abspath(__file__)))


class Unsupported(Exception):
    pass


def fail(path, pos_or_line, msg, src=None):
    line = pos_or_line
    if src is not None:
        line = src.count("\n", 0, pos_or_line) + 1
    raise Unsupported(f"{path}:{line}: {msg}")


# --------------------------------------------------------------------------------------------
# lexical layer

def strip_comments(src):
    """replaces comments by blanks (newlines kept, so positions and line numbers stay valid);
    string / char literals are kept verbatim"""
    out, i, n = [], 0, len(src)
    while i < n:
        c = src[i]
        if src.startswith("//", i):
            while i < n and src[i] != "\n":
                out.append(" "); i += 1
            continue
        if src.startswith("/*", i):
            depth = 0
            while i < n:
                if src.startswith("/*", i):
                    depth += 1; out.append("  "); i += 2
                elif src.startswith("*/", i):
                    depth -= 1; out.append("  "); i += 2
                    if depth == 0:
                        break
                else:
                    out.append("\n" if src[i] == "\n" else " "); i += 1
            continue
        m = re.match(r'(?:b|c)?r(#*)"', src[i:i + 12])
        if m and (i == 0 or not (src[i - 1].isalnum() or src[i - 1] == "_")):
            end = src.find('"' + m.group(1), i + m.end())
            if end < 0:
                end = n
            j = end + 1 + len(m.group(1))
            out.append(src[i:j]); i = j
            continue
        if c == '"':
            j = i + 1
            while j < n and src[j] != '"':
                j += 2 if src[j] == "\\" else 1
            out.append(src[i:j + 1]); i = j + 1
            continue
        if c == "'":
            # char literal or lifetime
            m = re.match(r"'(\\.[^']*|[^'\\])'", src[i:i + 12])
            if m:
                out.append(m.group(0)); i += m.end()
                continue
        out.append(c); i += 1
    return "".join(out)


def balanced(src, open_pos, path):
    """src[open_pos] is an opening bracket; returns the index of the matching closing bracket"""
    pairs = {"{": "}", "(": ")", "[": "]"}
    stack, i, n = [], open_pos, len(src)
    while i < n:
        c = src[i]
        if c == '"':
            j = i + 1
            while j < n and src[j] != '"':
                j += 2 if src[j] == "\\" else 1
            i = j + 1
            continue
        if c in pairs:
            stack.append(pairs[c])
        elif c in ")}]":
            if not stack or stack[-1] != c:
                fail(path, i, f"unbalanced `{c}`", src)
            stack.pop()
            if not stack:
                return i
        i += 1
    fail(path, open_pos, "unterminated bracket", src)


def split_top(s, sep=","):
    """split at top-level separators (outside brackets and string literals)"""
    parts, depth, cur, i, n = [], 0, [], 0, len(s)
    while i < n:
        c = s[i]
        if c == '"':
            j = i + 1
            while j < n and s[j] != '"':
                j += 2 if s[j] == "\\" else 1
            cur.append(s[i:j + 1]); i = j + 1
            continue
        if c in "({[":
            depth += 1
        elif c in ")}]":
            depth -= 1
        if c == sep and depth == 0:
            parts.append("".join(cur)); cur = []
        else:
            cur.append(c)
        i += 1
    parts.append("".join(cur))
    return parts


def unescape_rust_str(lit, path, line):
    """content of a plain Rust string literal (without the quotes)"""
    out, i = [], 0
    while i < len(lit):
        c = lit[i]
        if c == "\\":
            d = lit[i + 1] if i + 1 < len(lit) else ""
            simple = {"n": "\n", "t": "\t", "r": "\r", "0": "\0", "\\": "\\", '"': '"', "'": "'"}
            if d in simple:
                out.append(simple[d]); i += 2
                continue
            fail(path, line, f"string escape `\\{d}` in a printable name is not supported by the translator")
        out.append(c); i += 1
    return "".join(out)


# --------------------------------------------------------------------------------------------
# the naming rule of #[derive(CStrRepr)]  (ffi-macros/src/lib.rs, fn variant_name_to_string)
# transcription; the harness re-checks every generated name against the compiled *_string functions.

def variant_name_to_string(name):
    if not all(ord(c) < 128 for c in name):
        raise Unsupported(f"non-ASCII variant name `{name}`: the transcription of variant_name_to_string covers ASCII only")
    chars = list(name)
    result = ""
    for i, c in enumerate(chars):
        if c == "_":
            if not result.endswith(" "):
                result += " "
            continue
        prev = chars[i - 1] if i >= 1 else None
        nxt = chars[i + 1] if i + 1 < len(chars) else None
        starts_camel_word = (c.isupper() and i > 0 and prev != "_"
                             and ((prev is not None and (prev.islower() or prev.isdigit()))
                                  or (nxt is not None and nxt.islower())))
        if starts_camel_word and not result.endswith(" "):
            result += " "
        result += c.lower()
    return result.strip()


# the macro's own unit tests (ffi-macros/src/lib.rs, mod tests), re-run on the transcription at every start
_NAME_RULE_VECTORS = [("VariantTwo", "variant two"), ("InternalError", "internal error"), ("INTERNAL_ERROR", "internal error"),
                      ("INSUFFICIENT_PERMISSIONS", "insufficient permissions"), ("URLParseError", "url parse error"),
                      ("HTTP_REQUEST", "http request"), ("__INTERNAL_ERROR__", "internal error"), ("__INTERNAL_ERROR", "internal error"),
                      ("INTERNAL_ERROR__", "internal error"), ("INTERNAL__ERROR", "internal error"), ("__", ""), ("A", "a"), ("AB", "ab"),
                      ("A_B", "a b")]

# sha256 of the whitespace-free, comment-free body of `fn variant_name_to_string` the transcription was made from
PINNED_NAME_RULE_SHA256 = "7cde3106480c68fc88cf41dce3aba3ab3f5ee5d7e63acfcda09a8bd7ade44fb9"


def check_macro_rule(repo):
    """the transcription above is only valid for the macro text it was transcribed from: the body of
    `variant_name_to_string` is compared (whitespace-insensitively) with the pinned digest"""
    import hashlib
    for (a, b) in _NAME_RULE_VECTORS:
        if variant_name_to_string(a) != b:
            raise Unsupported(f"self-test of the naming rule failed on {a!r}")
    p = os.path.join(repo, "iceoryx2-ffi/ffi-macros/src/lib.rs")
    src = strip_comments(open(p).read())
    m = re.search(r"fn\s+variant_name_to_string\s*\(", src)
    if not m:
        fail(p, 1, "fn variant_name_to_string not found (CStrRepr naming rule changed?)")
    b = src.index("{", m.end())
    e = balanced(src, b, p)
    body = re.sub(r"\s+", "", src[b:e + 1])
    digest = hashlib.sha256(body.encode()).hexdigest()
    if digest != PINNED_NAME_RULE_SHA256:
        fail(p, b, f"the body of variant_name_to_string changed (sha256 {digest}); re-transcribe it in extract/ffi_errors.py "
             "and update PINNED_NAME_RULE_SHA256", src)
    if not re.search(r"proc_macro_derive\s*\(\s*CStrRepr\s*,\s*attributes\s*\(\s*CStr\s*\)\s*\)", src):
        fail(p, 1, "#[proc_macro_derive(CStrRepr, attributes(CStr))] not found")
    if 'is_ident("CStr")' not in src or "variant_name_to_string(&enum_name.to_string())" not in src:
        fail(p, 1, "CStrRepr derive: attribute lookup / fallback naming not in the expected shape")




# --------------------------------------------------------------------------------------------
# C side: enums, mappings, string functions

class CEnum:
    def __init__(self, name, path, line):
        self.name, self.path, self.line = name, path, line
        self.repr_c = False
        self.cstr_derive = False
        self.variants = []        # dict(name, code(int|None), expr, cstr_attr, line)
        self.first_is_ok_plus = False
        self.string_fns = []


def eval_discriminant(expr, consts, path, line):
    e = re.sub(r"\s+", " ", expr.strip())
    m = re.fullmatch(r"(-?\d+)(?:_?[iu](?:8|16|32|64|size))?", e)
    if m:
        return int(m.group(1))
    m = re.fullmatch(r"(\w+) as (?:isize|i32|c_int|usize|_)(?: ([+-]) (\d+))?", e)
    if m and m.group(1) in consts:
        v = consts[m.group(1)]
        if m.group(2):
            v = v + int(m.group(3)) if m.group(2) == "+" else v - int(m.group(3))
        return v
    return None


def parse_c_enums(path, src, consts):
    enums = []
    for m in re.finditer(r"\bpub\s+enum\s+(iox2_\w+)\s*\{", src):
        name = m.group(1)
        line = src.count("\n", 0, m.start()) + 1
        en = CEnum(name, path, line)
        # attributes directly in front
        head = src[:m.start()]
        attrs = re.search(r"((?:#\[[^\]]*\]\s*)+)$", head)
        atext = attrs.group(1) if attrs else ""
        en.repr_c = bool(re.search(r"#\[repr\(C\)\]", atext))
        d = re.search(r"#\[derive\(([^)]*)\)\]", atext)
        en.cstr_derive = bool(d and "CStrRepr" in [x.strip() for x in d.group(1).split(",")])
        b = m.end() - 1
        e = balanced(src, b, path)
        body = src[b + 1:e]
        en.span = (m.start(), e)
        off = b + 1
        prev = None
        for part in split_top(body):
            plen = len(part)
            text = part.strip()
            vline = src.count("\n", 0, off + (len(part) - len(part.lstrip()))) + 1
            off += plen + 1
            if not text:
                continue
            cstr = None
            while text.startswith("#["):
                close = text.index("]")
                a = text[2:close].strip()
                text = text[close + 1:].strip()
                ma = re.fullmatch(r'CStr\s*=\s*"((?:[^"\\]|\\.)*)"', a)
                if ma:
                    cstr = unescape_rust_str(ma.group(1), path, vline)
                elif a.startswith("CStr"):
                    fail(path, vline, f"unsupported CStr attribute `#[{a}]`")
                elif re.match(r"(doc|allow|cfg_attr|deprecated)\b", a):
                    if a.startswith("cfg"):
                        fail(path, vline, f"conditional variant `#[{a}]` not supported")
                else:
                    fail(path, vline, f"unknown variant attribute `#[{a}]` in {name}")
            mv = re.fullmatch(r"(\w+)(?:\s*=\s*(.+))?", text, re.S)
            if not mv:
                fail(path, vline, f"enum {name}: variant `{text[:60]}` is not `NAME` or `NAME = expr` (payload variants are not C enums)")
            vname, expr = mv.group(1), mv.group(2)
            if expr is not None:
                code = eval_discriminant(expr, consts, path, vline)
                if len(en.variants) == 0 and re.fullmatch(r"IOX2_OK\s+as\s+isize\s*\+\s*1", expr.strip()):
                    en.first_is_ok_plus = True
            else:
                code = 0 if prev is None and not en.variants else (None if prev is None else prev + 1)
            en.variants.append(dict(name=vname, code=code, expr=expr, cstr=cstr, line=vline))
            prev = code
        if not en.variants:
            fail(path, line, f"enum {name} has no variants")
        enums.append(en)
    return enums


def parse_pattern(p, path, line):
    """pattern grammar:  _ | ident | Path::Variant | Path::Variant(pat, …) | Path::Variant { .. }"""
    p = p.strip()
    if p == "_" or p == "..":
        return ("wild", None)
    if re.fullmatch(r"[a-z_]\w*", p):
        return ("bind", p)
    m = re.fullmatch(r"((?:\w+::)*)(\w+)::(\w+)\s*(?:\((.*)\)|\{\s*\.\.\s*\})?", p, re.S)
    if not m:
        fail(path, line, f"unsupported match pattern `{re.sub(chr(10), ' ', p)[:80]}`")
    ty, var, sub = m.group(2), m.group(3), m.group(4)
    subs = None
    if sub is not None:
        subs = [parse_pattern(x, path, line) for x in split_top(sub) if x.strip()]
    elif p.rstrip().endswith("}"):
        subs = [("wild", None)]
    return ("var", ty, var, subs)


def parse_arms(body, path, base_line):
    """match body -> list of (pattern, expr text, line)"""
    arms, i, n = [], 0, len(body)
    while True:
        while i < n and body[i] in " \t\r\n,":
            i += 1
        if i >= n:
            break
        start = i
        depth = 0
        while i < n:
            c = body[i]
            if c in "({[":
                depth += 1
            elif c in ")}]":
                depth -= 1
            elif depth == 0 and body.startswith("=>", i):
                break
            i += 1
        if i >= n:
            fail(path, base_line + body.count("\n", 0, start), f"match arm without `=>`: `{body[start:start+60].strip()}`")
        pat = body[start:i]
        line = base_line + body.count("\n", 0, start)
        i += 2
        while i < n and body[i] in " \t\r\n":
            i += 1
        if i < n and body[i] == "{":
            e = balanced(body, i, path)
            expr = body[i + 1:e]
            i = e + 1
        else:
            s = i
            depth = 0
            while i < n:
                c = body[i]
                if c in "({[":
                    depth += 1
                elif c in ")}]":
                    depth -= 1
                elif c == "," and depth == 0:
                    break
                i += 1
            expr = body[s:i]
        if "|" in pat:
            alts = split_top(pat, "|")
        else:
            alts = [pat]
        if " if " in pat:
            fail(path, line, "match guards are not supported")
        for a in alts:
            arms.append((parse_pattern(a, path, line), re.sub(r"\s+", " ", expr.strip()), line))
    return arms


class MapImpl:
    def __init__(self, rust, path, line, kind):
        self.rust, self.path, self.line, self.kind = rust, path, line, kind
        self.arms = []          # (pattern, ("c", enum, variant) | ("delegate", ident) , line)
        self.via_into = None    # IntoCInt implemented as Into::<iox2_x_e>::into(self)
        self.target = None      # declared target (From impls)
        self.lazy = None

    def force(self):
        if self.lazy is not None:
            body, base_line = self.lazy
            self.lazy = None
            for (pat, expr, ln) in parse_arms(body, self.path, base_line):
                self.arms.append((pat, parse_arm_expr(expr, self.path, ln), ln))


def parse_arm_expr(expr, path, line):
    e = expr.strip().rstrip(";").strip()
    m = re.fullmatch(r"\(?\s*(iox2_\w+)::(\w+)\s*\)?(?:\s+as\s+(?:c_int|core::ffi::c_int|i32|_))?", e)
    if m:
        return ("c", m.group(1), m.group(2))
    m2 = re.fullmatch(r"([a-z_]\w*)\s*\.\s*into_c_int\s*\(\s*\)", e)
    if m2:
        return ("delegate", m2.group(1))
    fail(path, line, f"unsupported match arm result `{e[:100]}` (expected `iox2_…_e::VARIANT [as c_int]` or `<binding>.into_c_int()`)")


def parse_mappings(path, src):
    impls = []
    for m in re.finditer(r"\bimpl\s+IntoCInt\s+for\s+(\w+)\s*\{", src):
        line = src.count("\n", 0, m.start()) + 1
        b = m.end() - 1
        e = balanced(src, b, path)
        body = src[b + 1:e]
        mi = MapImpl(m.group(1), path, line, "IntoCInt")
        mi.span = (m.start(), e)
        mf = re.search(r"fn\s+into_c_int\s*\(\s*self\s*\)\s*->\s*(?:core::ffi::)?c_int\s*\{", body)
        if not mf:
            fail(path, line, f"impl IntoCInt for {mi.rust}: fn into_c_int(self) -> c_int not found")
        fb = mf.end() - 1
        fe = balanced(body, fb, path)
        fraw = body[fb + 1:fe]
        fabs = b + 1 + fb + 1           # position of fraw in src
        fbody = fraw.strip()
        mv = re.fullmatch(r"(?:Into::<\s*)?(iox2_\w+)(?:\s*>)?::(?:from|into)\(\s*self\s*\)\s+as\s+c_int", fbody)
        if mv:
            mi.via_into = mv.group(1)
            impls.append(mi)
            continue
        mm = re.search(r"\bmatch\s+self\s*\{", fraw)
        if not mm:
            fail(path, line, f"impl IntoCInt for {mi.rust}: body is neither `match self {{…}}` nor `Into::<iox2_…_e>::into(self) as c_int`: `{fbody[:80]}`")
        pre = fraw[:mm.start()].strip()
        mb = mm.end() - 1
        me = balanced(fraw, mb, path)
        post = fraw[me + 1:].strip()
        if pre not in ("", "(") or not re.fullmatch(r"(\)\s*as\s+(?:c_int|core::ffi::c_int))?", post) or (pre == "(") != post.startswith(")"):
            fail(path, line, f"impl IntoCInt for {mi.rust}: unexpected code around the match: `{pre}` … `{post}`")
        base_line = src.count("\n", 0, fabs + mb + 1) + 1
        for (pat, expr, ln) in parse_arms(fraw[mb + 1:me], path, base_line):
            mi.arms.append((pat, parse_arm_expr(expr, path, ln), ln))
        impls.append(mi)
    for m in re.finditer(r"\bimpl\s+From<\s*&?\s*([\w:]+)\s*>\s+for\s+(iox2_\w+_e)\s*\{", src):
        line = src.count("\n", 0, m.start()) + 1
        b = m.end() - 1
        e = balanced(src, b, path)
        body = src[b + 1:e]
        rust = m.group(1).split("::")[-1]
        mi = MapImpl(rust, path, line, "From")
        mi.span = (m.start(), e)
        mi.target = m.group(2)
        mm = re.search(r"\bmatch\s+\*?(\w+)\s*\{", body)
        if not mm:
            fail(path, line, f"impl From<{rust}> for {mi.target}: no `match value {{…}}`")
        mb = mm.end() - 1
        me = balanced(body, mb, path)
        base_line = src.count("\n", 0, b + 1 + mb + 1) + 1
        # parsed on demand (From impls also exist for plain values, e.g. From<u8> for iox2_log_level_e)
        mi.lazy = (body[mb + 1:me], base_line)
        impls.append(mi)
    return impls


def parse_string_fns(path, src):
    """pub unsafe extern "C" fn NAME(error: iox2_X_e) -> *const c_char { error.as_const_cstr().as_ptr() … }"""
    res = []
    for m in re.finditer(r'pub\s+(?:unsafe\s+)?extern\s+"C"\s+fn\s+(\w+)\s*\(\s*(\w+)\s*:\s*(iox2_\w+_e)\s*,?\s*\)\s*->\s*\*const\s+c_char\s*\{', src):
        b = m.end() - 1
        e = balanced(src, b, path)
        body = re.sub(r"\s+", "", src[b + 1:e])
        line = src.count("\n", 0, m.start()) + 1
        if body != f"{m.group(2)}.as_const_cstr().as_ptr()as*constc_char":
            fail(path, line, f"{m.group(1)}: body is not `<arg>.as_const_cstr().as_ptr() as *const c_char`")
        res.append((m.group(3), m.group(1), line))
    return res


def parse_uses(src):
    """name -> crate path (first segment …) for explicit imports"""
    uses = {}
    for m in re.finditer(r"\buse\s+([^;]+);", src):
        def walk(prefix, t):
            t = t.strip()
            if t.endswith("}") and "{" in t:
                i = t.index("{")
                pre = prefix + [x for x in t[:i].strip().rstrip(":").split("::") if x]
                for part in split_top(t[i + 1:-1]):
                    if part.strip():
                        walk(pre, part)
            else:
                t2 = re.sub(r"\s+as\s+\w+$", "", t)
                segs = prefix + [x.strip() for x in t2.split("::") if x.strip()]
                if segs and segs[-1] != "*":
                    alias = re.search(r"\s+as\s+(\w+)$", t)
                    uses[alias.group(1) if alias else segs[-1]] = segs
        walk([], m.group(1))
    return uses


# --------------------------------------------------------------------------------------------
# Rust side: enum definitions

class RustEnum:
    def __init__(self, name, path, line):
        self.name, self.path, self.line = name, path, line
        self.variants = []   # (name, payload types list | None (unit) | "struct", line)


def crate_dirs(repo):
    dirs = {"iceoryx2": os.path.join(repo, "iceoryx2/src"), "iceoryx2_cal": os.path.join(repo, "iceoryx2-cal/src")}
    for fam in ("bb", "pal"):
        for d in sorted(glob.glob(os.path.join(repo, f"iceoryx2-{fam}/*/src"))):
            cn = os.path.basename(os.path.dirname(d)).replace("-", "_")
            dirs[f"iceoryx2_{fam}_{cn}"] = d
    return dirs


_rust_index = None


def rust_index(repo):
    """name -> [(path, pos)] of every `pub enum Name` in the library crates"""
    global _rust_index
    if _rust_index is not None:
        return _rust_index
    idx = {}
    srcs = {}
    for cn, d in crate_dirs(repo).items():
        for root, _, files in os.walk(d):
            for fn in sorted(files):
                if fn.endswith(".rs"):
                    p = os.path.join(root, fn)
                    raw = open(p, encoding="utf-8").read()
                    if "enum" not in raw:
                        continue
                    s = strip_comments(raw)
                    srcs[p] = s
                    for m in re.finditer(r"\bpub\s+enum\s+(\w+)\s*(?:<[^>{]*>)?\s*\{", s):
                        idx.setdefault(m.group(1), []).append((p, m.end() - 1, cn))
    _rust_index = (idx, srcs)
    return _rust_index


def find_rust_enum(repo, name, uses, hint_path, ctx_path, ctx_line):
    idx, srcs = rust_index(repo)
    cands = idx.get(name, [])
    if not cands:
        fail(ctx_path, ctx_line, f"definition of Rust enum `{name}` not found under {repo}/iceoryx2*/…/src")
    chosen = cands
    if len(cands) > 1:
        crate = uses.get(name, [None])[0]
        if crate is None and hint_path:
            same = [c for c in cands if c[0] == hint_path]
            chosen = same or cands
        if len(chosen) > 1:
            if crate is None:
                crate = "iceoryx2"     # glob import of iceoryx2::prelude
            same = [c for c in chosen if c[2] == crate]
            chosen = same or chosen
        if len(chosen) > 1 and name in uses:
            # module path of the import decides
            want = "/".join(uses[name][1:-1])
            same = [c for c in chosen if want and want in c[0]]
            chosen = same or chosen
    if len(chosen) != 1:
        fail(ctx_path, ctx_line, f"Rust enum `{name}` is ambiguous: {[c[0] for c in chosen]}")
    p, b, _ = chosen[0]
    s = srcs[p]
    e = balanced(s, b, p)
    re_ = RustEnum(name, p, s.count("\n", 0, b) + 1)
    off = b + 1
    for part in split_top(s[b + 1:e]):
        plen = len(part)
        text = part.strip()
        vline = s.count("\n", 0, off + (len(part) - len(part.lstrip()))) + 1
        off += plen + 1
        if not text:
            continue
        while text.startswith("#["):
            close = balanced(text, 1, p)
            a = text[2:close]
            if a.strip().startswith("cfg"):
                fail(p, vline, f"conditional variant `#[{a}]` in Rust enum {name} not supported")
            text = text[close + 1:].strip()
        m = re.fullmatch(r"(\w+)\s*(?:\((.*)\)|(\{.*\}))?(?:\s*=\s*[^,]+)?", text, re.S)
        if not m:
            fail(p, vline, f"Rust enum {name}: variant `{text[:60]}` not understood")
        if m.group(2) is not None:
            payload = [re.sub(r"\s+", "", x) for x in split_top(m.group(2)) if x.strip()]
        elif m.group(3) is not None:
            payload = "struct"
        else:
            payload = None
        re_.variants.append((m.group(1), payload, vline))
    if not re_.variants:
        fail(p, re_.line, f"Rust enum {name} has no variants")
    return re_


# --------------------------------------------------------------------------------------------
# flattening: Rust enum + match arms -> list of (flattened rust variant, C variant | None)

class Flattener:
    """Enumerates the values of a Rust error enum as far as the match arms look into them
    (payloads nobody inspects stay opaque: `V(_)`), and evaluates the match on every value
    with Rust's first-match semantics."""

    def __init__(self, repo, impls_by_rust, uses_by_path):
        self.repo = repo
        self.impls = impls_by_rust
        self.uses = uses_by_path
        self.cache = {}

    # values: ("_", type name)  |  ("V", type name, variant, payload value | None)
    def enum_values(self, tyname, pats, impl, hint, line, force=False):
        varpats = [p for p in pats if p[0] == "var"]
        if not varpats and not force:
            return [("_", tyname)], None
        renum = find_rust_enum(self.repo, tyname, self.uses[impl.path], hint, impl.path, line)
        names = {v[0] for v in renum.variants}
        for p in varpats:
            if p[1] not in (tyname, "Self"):
                fail(impl.path, line, f"pattern of type `{p[1]}` at a position of type `{tyname}`")
            if p[2] not in names:
                fail(impl.path, line, f"pattern names `{tyname}::{p[2]}` which is not a variant of the enum found at {renum.path}:{renum.line}")
        vals = []
        for (v, payload, _) in renum.variants:
            mine = [p for p in varpats if p[2] == v]
            if payload is None:
                for p in mine:
                    if p[3] is not None:
                        fail(impl.path, line, f"pattern with payload for unit variant {tyname}::{v}")
                vals.append(("V", tyname, v, None))
                continue
            for p in mine:
                if p[3] is None:
                    fail(impl.path, line, f"pattern without payload for payload variant {tyname}::{v}")
            inspects = any(sp[0] == "var" for p in mine for sp in p[3])
            if payload == "struct" or len(payload) != 1:
                if inspects:
                    fail(impl.path, line, f"pattern looks into the multi-field payload of {tyname}::{v}: not supported")
                vals.append(("V", tyname, v, ("_", "<fields>")))
                continue
            pty = payload[0].split("::")[-1]
            firsts = []
            for p in mine:
                if len(p[3]) != 1:
                    fail(impl.path, line, f"{tyname}::{v} has one field, the pattern has {len(p[3])}")
                firsts.append(p[3][0])
            subvals, _ = self.enum_values(pty, firsts, impl, renum.path, line)
            for sv in subvals:
                vals.append(("V", tyname, v, sv))
        return vals, renum

    def label(self, val):
        if val[0] == "_":
            return "_"
        if val[3] is None:
            return val[2]
        return f"{val[2]}({self.label(val[3])})"

    def matches(self, pat, val, impl, ln):
        if pat[0] in ("wild", "bind"):
            return True
        if val[0] == "_":
            fail(impl.path, ln, "pattern inspects a payload the translator did not expand")
        if val[2] != pat[2]:
            return False
        if val[3] is None:
            return True
        return self.matches(pat[3][0], val[3], impl, ln)

    def bound(self, pat, val, ident):
        """sub-value bound to `ident` by the (matching) pattern, with its path"""
        if pat[0] == "bind":
            return (val, ()) if pat[1] == ident else None
        if pat[0] == "var" and pat[3] and val[0] == "V" and val[3] is not None:
            r = self.bound(pat[3][0], val[3], ident)
            if r:
                return (r[0], (val[2],) + r[1])
        return None

    def flatten(self, rust_name, stack=()):
        """-> dict(target=C enum, rows=[(flat rust variant, C variant | None, reason | None, line)], rust, impl)"""
        if rust_name in self.cache:
            return self.cache[rust_name]
        if rust_name in stack:
            raise Unsupported(f"recursive delegation between IntoCInt impls: {' -> '.join(stack + (rust_name,))}")
        if rust_name not in self.impls:
            raise Unsupported(f"no IntoCInt impl for `{rust_name}` (needed by a delegating arm)")
        impl = self.impls[rust_name]
        pats = [p for (p, _, _) in impl.arms]
        for k, p in enumerate(pats):
            if p[0] in ("wild", "bind") and k != len(pats) - 1:
                fail(impl.path, impl.arms[k][2], "catch-all arm is not the last arm")
        vals, renum = self.enum_values(rust_name, pats, impl, None, impl.line, force=True)
        rows, targets, used = [], set(), set()
        for val in vals:
            lab = self.label(val)
            hit = None
            for k, (pat, res, ln) in enumerate(impl.arms):
                if self.matches(pat, val, impl, ln):
                    hit = k
                    break
            if hit is None:
                # rustc would reject the match: the enum found is not the one the binding compiles against
                rows.append((lab, None, "no arm matches and there is no catch-all", impl.line))
                continue
            used.add(hit)
            pat, res, ln = impl.arms[hit]
            if res[0] == "c":
                targets.add(res[1])
                rows.append((lab, res[2], None, ln))
                continue
            ident = res[1]
            b = self.bound(pat, val, ident)
            if b is None:
                fail(impl.path, ln, f"`{ident}.into_c_int()`: `{ident}` is not bound by the arm's pattern")
            sub, path = b
            if path == ():
                rows.append((lab, None, f"arm `{ident} => {ident}.into_c_int()` calls into_c_int again with the same value: unbounded recursion, no C code is ever returned", ln))
                continue
            if sub[0] != "_":
                fail(impl.path, ln, "delegation on a payload that other arms look into: not supported")
            d = self.flatten(sub[1], stack + (rust_name,))
            targets.add(d["target"])
            def wrap(inner, path=path):
                for v in reversed(path):
                    inner = f"{v}({inner})"
                return inner
            for (l2, c2, why2, ln2) in d["rows"]:
                rows.append((wrap(l2), c2, why2, ln2 if c2 is None else ln))
        for k, (pat, res, ln) in enumerate(impl.arms):
            if k not in used:
                fail(impl.path, ln, f"arm {k + 1} of the mapping of {rust_name} matches no value of the Rust enum found at {renum.path}:{renum.line} (wrong enum definition?)")
        labels = [r[0] for r in rows]
        if len(set(labels)) != len(labels):
            fail(impl.path, impl.line, f"flattened variants of {rust_name} are not unique: {labels}")
        if len(targets) > 1:
            fail(impl.path, impl.line, f"mapping of `{rust_name}` produces variants of several C enums: {sorted(targets)}")
        if not targets:
            fail(impl.path, impl.line, f"mapping of `{rust_name}` produces no C variant at all")
        r = dict(target=targets.pop(), rows=rows, rust=renum, impl=impl)
        self.cache[rust_name] = r
        return r


# --------------------------------------------------------------------------------------------

NON_ERROR_WITH_INTO_C_INT = {
    # IntoCInt targets that are values, not failures (documented in notes/C18-design.md)
    "iox2_signal_handling_mode_e": "configuration value",
    "iox2_backpressure_strategy_e": "configuration value",
}


def lean_str(s):
    out = []
    for ch in s:
        if ch == "\\":
            out.append("\\\\")
        elif ch == '"':
            out.append('\\"')
        elif ch == "\n":
            out.append("\\n")
        elif ch == "\t":
            out.append("\\t")
        elif ord(ch) < 32 or ord(ch) == 127:
            out.append("\\x%02x" % ord(ch))
        else:
            out.append(ch)
    return '"' + "".join(out) + '"'


def translate(repo):
    api = os.path.join(repo, "iceoryx2-ffi/c/src/api")
    files = sorted(glob.glob(os.path.join(api, "*.rs")))
    if not files:
        raise Unsupported(f"no sources under {api}")
    check_macro_rule(repo)
    srcs = {p: strip_comments(open(p, encoding="utf-8").read()) for p in files}
    consts = {}
    for p, s in srcs.items():
        for m in re.finditer(r"\bpub\s+const\s+(IOX2_OK)\s*:\s*c_int\s*=\s*(-?\d+)\s*;", s):
            consts[m.group(1)] = int(m.group(2))
    if "IOX2_OK" not in consts:
        raise Unsupported("`pub const IOX2_OK: c_int = <n>;` not found")
    enums, impls, sfns, uses = [], [], [], {}
    for p in files:
        s = srcs[p]
        uses[p] = parse_uses(s)
        enums += parse_c_enums(p, s, consts)
        impls += parse_mappings(p, s)
        sfns += parse_string_fns(p, s)
        # a construct that looks like a mapping but was not recognised by the patterns above
        n_into = len(re.findall(r"\bIntoCInt\s+for\b", s))
        n_rec = len([i for i in impls if i.path == p and i.kind == "IntoCInt"])
        if n_into != n_rec:
            fail(p, 1, f"{n_into} `IntoCInt for` occurrences but {n_rec} recognised impls")
        n_enum = len(re.findall(r"\benum\s+iox2_\w+", s))
        n_rec = len([e for e in enums if e.path == p])
        if n_enum != n_rec:
            fail(p, 1, f"{n_enum} `enum iox2_…` occurrences but {n_rec} recognised (non-pub or generic enum?)")
    # mentions of `iox2_…_e::VARIANT` outside enum definitions, mapping impls and the export stubs of
    # quirks_correction.rs: codes the binding produces by itself (not as the image of a Rust error)
    direct = {}
    for p in files:
        if os.path.basename(p) == "quirks_correction.rs":
            continue
        spans = [e.span for e in enums if e.path == p] + [i.span for i in impls if i.path == p]
        for m in re.finditer(r"\b(iox2_\w+_e)::([A-Z]\w*)\b", srcs[p]):
            if any(a <= m.start() <= b for (a, b) in spans):
                continue
            direct.setdefault((m.group(1), m.group(2)), []).append(f"{os.path.relpath(p, repo)}:{srcs[p].count(chr(10), 0, m.start()) + 1}")
    by_name = {}
    for e in enums:
        if e.name in by_name:
            fail(e.path, e.line, f"C enum {e.name} defined twice")
        by_name[e.name] = e
    for (en, fn, line) in sfns:
        if en not in by_name:
            raise Unsupported(f"string function {fn} for unknown enum {en}")
        by_name[en].string_fns.append(fn)

    impls_by_rust = {}
    for i in impls:
        if i.kind == "IntoCInt":
            if i.rust in impls_by_rust:
                fail(i.path, i.line, f"two IntoCInt impls for {i.rust}")
            impls_by_rust[i.rust] = i
    from_impls = {(i.rust, i.target): i for i in impls if i.kind == "From"}
    # IntoCInt via Into::<E>::into(self): use the arms of the From impl
    for i in list(impls_by_rust.values()):
        if i.via_into:
            f = from_impls.get((i.rust, i.via_into))
            if not f:
                fail(i.path, i.line, f"IntoCInt for {i.rust} goes through Into<{i.via_into}> but `impl From<{i.rust}> for {i.via_into}` was not found")
            f.force()
            f.used = True
            i.arms = f.arms
    for (rust, target), f in sorted(from_impls.items()):
        if re.search(r"_(error|failure)_e$", target) and not getattr(f, "used", False):
            if rust in impls_by_rust:
                fail(f.path, f.line, f"both IntoCInt and an independent From<{rust}> for {target}")
            f.force()
            impls_by_rust[rust] = f
    fl = Flattener(repo, impls_by_rust, uses)
    mappings = {}      # C enum -> [flatten result]
    for rust in sorted(impls_by_rust):
        r = fl.flatten(rust)
        if r["target"] not in by_name:
            fail(r["impl"].path, r["impl"].line, f"mapping of {rust} targets unknown enum {r['target']}")
        cv = {v["name"] for v in by_name[r["target"]].variants}
        for (l, c, why, ln) in r["rows"]:
            if c is not None and c not in cv:
                fail(r["impl"].path, ln, f"`{r['target']}::{c}` is not a variant of the C enum")
        mappings.setdefault(r["target"], []).append(r)

    # classification
    table, skipped = [], []
    for e in enums:
        by_rule = None
        if re.search(r"_(error|failure)_e$", e.name):
            by_rule = "name ends in _error_e/_failure_e"
        elif e.name in mappings and e.name not in NON_ERROR_WITH_INTO_C_INT:
            by_rule = "target of an IntoCInt mapping"
        elif e.first_is_ok_plus and e.name not in NON_ERROR_WITH_INTO_C_INT:
            by_rule = "first discriminant is IOX2_OK + 1"
        if by_rule is None:
            why = NON_ERROR_WITH_INTO_C_INT.get(e.name, "no error naming, no IntoCInt mapping, does not start at IOX2_OK + 1")
            skipped.append((e.name, os.path.relpath(e.path, repo), e.line, why))
            continue
        if not e.repr_c:
            fail(e.path, e.line, f"error enum {e.name} is not #[repr(C)]")
        for v in e.variants:
            if v["code"] is None:
                fail(e.path, v["line"], f"{e.name}::{v['name']}: discriminant `{v['expr']}` cannot be evaluated by the translator")
            if v["cstr"] is not None and not e.cstr_derive:
                fail(e.path, v["line"], f"{e.name}::{v['name']} has a CStr attribute but the enum does not derive CStrRepr")
        variants = []
        for v in e.variants:
            if e.cstr_derive:
                printable = v["cstr"] if v["cstr"] is not None else variant_name_to_string(v["name"])
            else:
                printable = ""
            variants.append(dict(name=v["name"], code=v["code"], printable=printable, line=v["line"],
                                 direct=direct.get((e.name, v["name"]), [])))
        ms = []
        for r in sorted(mappings.get(e.name, []), key=lambda r: r["rust"].name):
            ms.append(dict(
                rustEnum=r["rust"].name,
                rustFile=os.path.relpath(r["rust"].path, repo), rustLine=r["rust"].line,
                implFile=os.path.relpath(r["impl"].path, repo), implLine=r["impl"].line,
                rustVariants=[l for (l, _, _, _) in r["rows"]],
                table=[dict(rust=l, c=c, line=ln) for (l, c, _, ln) in r["rows"] if c is not None],
                unmapped=[dict(rust=l, why=why, line=ln) for (l, c, why, ln) in r["rows"] if c is None],
            ))
        table.append(dict(name=e.name, file=os.path.relpath(e.path, repo), line=e.line, rule=by_rule,
                          derivesCStrRepr=e.cstr_derive, stringFns=sorted(e.string_fns),
                          variants=variants, mappings=ms))
    for e in enums:
        if e.string_fns and not e.cstr_derive:
            fail(e.path, e.line, f"{e.name} has a string function but does not derive CStrRepr")
    table.sort(key=lambda d: d["name"])
    return dict(ok=consts["IOX2_OK"], enums=table, skipped=sorted(skipped))


def emit_lean(t):
    L = []
    A = L.append
    N = lambda x: "n! " + lean_str(x)
    A("import Iox2.Model.Ffi")
    A("/- GENERATED by /verif/extract/ffi_errors.py from the Rust sources of the C binding — DO NOT EDIT.")
    A("   Regenerated on every run of `./check C18`. One entry per C error enum of iceoryx2-ffi/c/src/api.")
    A("   `n! \"text\"` = the name spelling `text` (Iox2/Model/Ffi.lean). -/")
    A("namespace Iox2.Gen.FfiErrors")
    A("open Iox2.Ffi")
    A("set_option maxRecDepth 65536   -- long literal lists")
    A("")
    A("/-- `pub const IOX2_OK: c_int` -/")
    A(f"def IOX2_OK : Int := {t['ok']}")
    A("")
    names = []
    for e in t["enums"]:
        dn = e["name"]
        names.append(dn)
        A(f"/-- {e['file']}:{e['line']} ({e['rule']}) -/")
        A(f"def {dn} : CEnum where")
        A(f"  name := {N(e['name'])}")
        A(f"  file := {lean_str(e['file'])}")
        A(f"  hasStringFn := {'true' if e['stringFns'] else 'false'}")
        A("  variants := [")
        A(",\n".join(f"    ⟨{N(v['name'])}, {v['code']}, {N(v['printable'])}⟩" for v in e["variants"]) + "]")
        A("  direct := [" + ", ".join(N(v["name"]) for v in e["variants"] if v["direct"]) + "]")
        if not e["mappings"]:
            A("  mappings := []")
        else:
            A("  mappings := [")
            ms = []
            for m in e["mappings"]:
                s = f"    {{ rustEnum := {N(m['rustEnum'])},\n"
                s += "      rustVariants := [" + ", ".join(N(x) for x in m["rustVariants"]) + "],\n"
                s += "      table := [" + ",\n        ".join(f"({N(r['rust'])}, {N(r['c'])})" for r in m["table"]) + "] }"
                ms.append(s)
            A(",\n".join(ms) + "]")
        A("")
    A("def allEnums : List CEnum := [")
    A(",\n".join("  " + n for n in names) + "]")
    A("")
    A("end Iox2.Gen.FfiErrors")
    return "\n".join(L) + "\n"


def emit_tsv(t):
    """the same table for the harness (no JSON parser there): tab-separated records
       E <enum> <string fn or ->           V <enum> <variant> <code> <printable>
       M <enum> <rust enum> <rust variant> <c variant>     U <enum> <rust enum> <rust variant> (no C value)"""
    L = [f"OK\t{t['ok']}"]
    for e in t["enums"]:
        L.append("\t".join(["E", e["name"], e["stringFns"][0] if e["stringFns"] else "-"]))
        for v in e["variants"]:
            if "\t" in v["printable"] or "\n" in v["printable"]:
                raise Unsupported(f"printable name of {e['name']}::{v['name']} contains a tab/newline")
            L.append("\t".join(["V", e["name"], v["name"], str(v["code"]), v["printable"]]))
        for m in e["mappings"]:
            for r in m["table"]:
                L.append("\t".join(["M", e["name"], m["rustEnum"], r["rust"], r["c"]]))
            for u in m["unmapped"]:
                L.append("\t".join(["U", e["name"], m["rustEnum"], u["rust"]]))
    return "\n".join(L) + "\n"


def summary(t):
    ne = len(t["enums"])
    nv = sum(len(e["variants"]) for e in t["enums"])
    nm = sum(len(e["mappings"]) for e in t["enums"])
    nr = sum(len(m["table"]) for e in t["enums"] for m in e["mappings"])
    nu = sum(len(m["unmapped"]) for e in t["enums"] for m in e["mappings"])
    nn = sum(1 for e in t["enums"] for v in e["variants"] if v["printable"])
    return dict(enums=ne, variants=nv, mappings=nm, mapping_rows=nr, unmapped_rust_variants=nu, printable_names=nn,
                enums_without_mapping=[e["name"] for e in t["enums"] if not e["mappings"]],
                enums_without_string_fn=[e["name"] for e in t["enums"] if not e["stringFns"]],
                non_error_enums=len(t["skipped"]))


def analyze(t):
    """Python re-check of the statements proved in Iox2/Props/C18.lean, on the same table; returns
    {statement: [offending entry …]} with concrete entries (enum, variants, file:line)."""
    ok = t["ok"]
    off = {k: [] for k in ("wellFormed", "codesDistinct", "codesNonzero", "hasStringFn", "namesNonempty", "namesDistinct",
                           "mappingTotal", "mappingInjective", "mappingOnto")}
    def dups(xs):
        seen, d = {}, []
        for i, x in enumerate(xs):
            if x in seen:
                d.append((seen[x], i))
            else:
                seen[x] = i
        return d
    for e in t["enums"]:
        vs = e["variants"]
        loc = lambda v: f"{e['file']}:{v['line']}"
        for (i, j) in dups([v["name"] for v in vs]):
            off["wellFormed"].append(dict(enum=e["name"], what=f"variant name {vs[j]['name']} twice", where=loc(vs[j])))
        for (i, j) in dups([v["code"] for v in vs]):
            off["codesDistinct"].append(dict(enum=e["name"], variants=[vs[i]["name"], vs[j]["name"]], code=vs[i]["code"], where=loc(vs[j])))
        for v in vs:
            if v["code"] == ok:
                off["codesNonzero"].append(dict(enum=e["name"], variant=v["name"], code=v["code"], where=loc(v)))
        if not e["stringFns"]:
            off["hasStringFn"].append(dict(enum=e["name"], where=f"{e['file']}:{e['line']}"))
        for v in vs:
            if v["printable"] == "":
                off["namesNonempty"].append(dict(enum=e["name"], variant=v["name"], where=loc(v)))
        for (i, j) in dups([v["printable"] if v["printable"] else ("", k) for k, v in enumerate(vs)]):   # empty names: namesNonempty
            off["namesDistinct"].append(dict(enum=e["name"], variants=[vs[i]["name"], vs[j]["name"]], printable=vs[i]["printable"], where=loc(vs[j])))
        cnames = {v["name"] for v in vs}
        image = set()
        for m in e["mappings"]:
            keys = [r["rust"] for r in m["table"]]
            for (i, j) in dups(keys):
                off["wellFormed"].append(dict(enum=e["name"], rustEnum=m["rustEnum"], what=f"rust variant {keys[j]} mapped twice"))
            for r in m["table"]:
                if r["rust"] not in m["rustVariants"] or r["c"] not in cnames:
                    off["wellFormed"].append(dict(enum=e["name"], rustEnum=m["rustEnum"], what=f"row {r['rust']} -> {r['c']} names unknown variants"))
                image.add(r["c"])
            for r in m["rustVariants"]:
                if r not in keys:
                    u = [x for x in m["unmapped"] if x["rust"] == r]
                    off["mappingTotal"].append(dict(enum=e["name"], rustEnum=m["rustEnum"], rustVariant=r,
                                                    why=u[0]["why"] if u else "not in the table",
                                                    where=f"{m['implFile']}:{u[0]['line'] if u else m['implLine']}", rustDef=f"{m['rustFile']}:{m['rustLine']}"))
            for (i, j) in dups([r["c"] for r in m["table"]]):
                off["mappingInjective"].append(dict(enum=e["name"], rustEnum=m["rustEnum"], rustVariants=[m["table"][i]["rust"], m["table"][j]["rust"]],
                                                    cVariant=m["table"][i]["c"], where=f"{m['implFile']}:{m['table'][j]['line']}"))
        for v in vs:
            if v["name"] not in image and not v["direct"]:
                off["mappingOnto"].append(dict(enum=e["name"], variant=v["name"], where=loc(v)))
    return off


def main():
    ap = argparse.ArgumentParser()
    ap.add_argument("--repo", default=os.environ.get("VERIF_REPO", "/repo"))
    ap.add_argument("--out-lean", default=os.path.join(VERIF, "lean/Iox2/Gen/FfiErrors.lean"))
    ap.add_argument("--out-json", default=os.path.join(VERIF, "lean/Iox2/Gen/ffi_errors.json"))
    ap.add_argument("--out-tsv", default=os.path.join(VERIF, "lean/Iox2/Gen/ffi_errors.tsv"))
    ap.add_argument("--quiet", action="store_true")
    a = ap.parse_args()
    try:
        t = translate(a.repo)
    except Unsupported as e:
        print(f"ffi_errors.py: CANNOT TRANSLATE: {e}", file=sys.stderr)
        return 2
    lean = emit_lean(t)
    js = json.dumps(t, indent=1, sort_keys=True) + "\n"
    for path, text in ((a.out_lean, lean), (a.out_json, js), (a.out_tsv, emit_tsv(t))):
        os.makedirs(os.path.dirname(path), exist_ok=True)
        old = open(path).read() if os.path.exists(path) else None
        if old != text:            # keep mtime when nothing changed: no needless Lean rebuild
            tmp = path + ".tmp%d" % os.getpid()
            with open(tmp, "w") as f:
                f.write(text)
            os.replace(tmp, path)
    s = summary(t)
    if not a.quiet:
        print(f"ffi_errors.py: {s['enums']} C error enums, {s['variants']} variants ({s['printable_names']} with printable name), "
              f"{s['mappings']} Rust->C mappings with {s['mapping_rows']} rows, {s['unmapped_rust_variants']} Rust variants without C value")
        print(f"  enums without any Rust mapping: {', '.join(s['enums_without_mapping']) or '-'}")
        print(f"  enums without *_string function: {', '.join(s['enums_without_string_fn']) or '-'}")
        print(f"  {s['non_error_enums']} C enums classified as not-an-error-enum:")
        for (n, f, l, why) in t["skipped"]:
            print(f"    {n} ({f}:{l}): {why}")
    return 0


if __name__ == "__main__":
    sys.exit(main())
