#!/bin/bash
# usage: confirm_seed.sh <worktree> <out/mK dir>  — confirms that the demonstration fails with the patch and passes without it
# env WHERE / HOW override what the header says
# (demo location / command are read from the header of demo.rs: "Where to put it:" / "How to run it:")
WT=$1; D=$2
cd "$WT" || exit 2
git checkout -q -- . ; git status --porcelain | grep -v '^??' && { echo "worktree not clean"; exit 2; }
where=$(grep -m1 -i "where to put it" "$D/demo.rs" | sed 's/.*[Ww]here to put it:* *//' | awk '{print $1}')
how=$(grep -m1 -i "how to run it" "$D/demo.rs" | sed 's/.*[Hh]ow to run it:* *//' | sed 's/ *\\$//')
case "$how" in CARGO_TARGET_DIR=*) how=$(grep -A1 -m1 -i "how to run it" "$D/demo.rs" | tail -1 | sed 's#^// *##');; esac
[ -n "$WHERE" ] && where=$WHERE; [ -n "$HOW" ] && how=$HOW
export CARGO_TARGET_DIR=$WT/target CARGO_NET_OFFLINE=true
echo "demo -> $where ; run: $how"
git apply --check "$D/patch.diff" || { echo "PATCH DOES NOT APPLY"; exit 1; }
mkdir -p "$(dirname "$where")"; cp "$D/demo.rs" "$where"
bash -c "$how" > "$D/confirm_unchanged.txt" 2>&1; rc0=$?
git apply "$D/patch.diff"
bash -c "$how" > "$D/confirm_patched.txt" 2>&1; rc1=$?
git checkout -q -- . ; rm -f "$where"
echo "unchanged rc=$rc0 patched rc=$rc1"
if [ $rc0 -eq 0 ] && [ $rc1 -ne 0 ]; then echo CONFIRMED; exit 0; else echo NOT-CONFIRMED; exit 1; fi
