#!/usr/bin/env python3
"""Applies a seeded change (seeded/<id>/patch.diff) to /repo, runs the given checks, undoes the change and
records which checks caught it in seeded/<id>/result.json.
usage: tools/eval_seeded.py <seeded-id> <Cxx> [<Cyy> …] [--tier quick]"""
import sys, os, json, subprocess, time
V = os.path.dirname(os.path.dirname(os.path.abspath(__file__)))


def main():
    sid = sys.argv[1]
    props = [a for a in sys.argv[2:] if a.startswith("C")]
    tier = "thorough" if "--thorough" in sys.argv else "quick"
    d = os.path.join(V, "seeded", sid)
    patch = os.path.join(d, "patch.diff")
    st = subprocess.run(["git", "-C", "/repo", "status", "--porcelain"], capture_output=True, text=True).stdout.strip()
    if st:
        print("refusing: /repo working tree is not clean:\n" + st); sys.exit(2)
    r = subprocess.run(["git", "-C", "/repo", "apply", patch], capture_output=True, text=True)
    if r.returncode != 0:
        print("patch does not apply: " + r.stderr); sys.exit(2)
    res = {}
    try:
        for p in props:
            t = time.time()
            o = subprocess.run([os.path.join(V, "check"), p, "--tier", tier], capture_output=True, text=True, cwd=V)
            lines = [l for l in o.stdout.split("\n") if l.startswith("VIOLATION") or l.startswith("[violation]")]
            res[p] = dict(exit=o.returncode, caught=o.returncode != 0, wall=round(time.time() - t, 1),
                          violations=[l[:300] for l in lines][:12])
            print(p, "CAUGHT" if o.returncode != 0 else "missed", f"{time.time()-t:.0f}s")
            for l in lines[:6]:
                print("   ", l[:200])
    finally:
        subprocess.run(["git", "-C", "/repo", "checkout", "--", "."], check=True)
        # evidence files and regenerated model parts were written from the patched tree: back to the committed ones
        subprocess.run(["git", "-C", V, "checkout", "--", "evidence", "lean/Iox2/Gen"], check=False)
    json.dump(dict(id=sid, tier=tier, results=res), open(os.path.join(d, "result.json"), "w"), indent=1)


if __name__ == "__main__":
    main()
